#!/usr/bin/env python3
"""keep_seeded.py <worktree> <name> <property> <detected_by> <not_detected_by> <notes>
Copies a confirmed seeded change into /verif/seeded/<name>/ and removes the scratch worktree."""
import json, os, shutil, subprocess, sys
wt, name, prop, det, notdet, notes = sys.argv[1:7]
dst = f"/verif/seeded/{name}"
os.makedirs(dst, exist_ok=True)
shutil.copy(f"{wt}/seeded/patch.diff", f"{dst}/patch.diff")
if os.path.isdir(f"{wt}/seeded/demo"):
    if os.path.isdir(f"{dst}/demo"):
        shutil.rmtree(f"{dst}/demo")
    shutil.copytree(f"{wt}/seeded/demo", f"{dst}/demo")
meta = {}
try:
    meta = json.load(open(f"{wt}/seeded/meta.json"))
except Exception as e:
    meta = {"agent_meta_unreadable": str(e)}
out = {
    "property": prop,
    "what_it_needs_to_manifest": meta.get("needs_to_manifest"),
    "summary": meta.get("summary"),
    "author": "independent sub-agent given only the property text and a scratch worktree",
    "agent_commands": meta.get("commands_run"),
    "confirmed_by_me": notes,
    "detected_by_checks": [d for d in det.split(",") if d],
    "not_detected_by_checks": [d for d in notdet.split(",") if d],
}
json.dump(out, open(f"{dst}/meta.json", "w"), indent=1)
subprocess.run(["git", "-C", "/repo", "worktree", "remove", "--force", wt])
print("kept", dst)
