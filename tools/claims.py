# Table of claimed checks (exec'd by gen_manifest.py).
HOOKS = {
    "guard": "--cfg nuts_rs_verif (H1), plus --cfg nuts_rs_verif_sched (H2) for the scheduler build",
    "enable": "RUSTFLAGS=\"--cfg nuts_rs_verif\" cargo build --release --offline in engine/seq-harness (path dependency on /repo); done by ./check",
    "baseline_off_cmd": "cd /repo && cargo test --workspace --no-fail-fast --offline",
    "source_commits": ["2ff3719", "5e3d8a1", "9d3a435"],
    "add_only": True,
}
NOT_APPLICABLE = {
    "C04": "statistical statement (moments/coverage within Monte-Carlo error over all seeds): no finite alphabet of choice answers represents it; deciding it would be sampling + hypothesis testing, a different technique family (DESIGN.md 4/C04)",
}

claim("C17", "exploration", E1,
      "Bounded-exhaustive enumeration of every vector length 0..=130 x kernel x probe (dense, one-hot at every index, every special value at every index; cancellation, overflow-range and antiparallel-momentum probes for the reductions and the ESH update) against a scalar reference; exhaustive over the stated alphabet, not over all floats.",
      "Trusted: the scalar reference formulas in c17.rs; SIMD level = what pulp selects on this CPU; tolerances (n+8)*4 ulp of sum |terms|.",
      "bounded-exhaustive input enumeration (length x index x special value) against scalar reference", "4/C17")

E2_NOTE = ("Trusted: shuttle 0.9.3 engine (with a vendored 3-line patch of shuttle-std's channel Drop, engine/vendor/shuttle-std/PATCH-NOTE.md); "
           "the facade's FIFO pool shim stands for rayon::scope_fifo (documented semantics), real time is abstracted (timed waits time out at quiescence or immediately for zero); "
           "sequential consistency at scheduling points (sampler.rs uses only mutexes and channels); 2-d Gaussian model, 3 draws per chain, recording storage backend.")
claim("C10", "model_checking", E2,
      "All schedules up to the preemption bound of the real sampler.rs for (chains,cores) in {(1,1),(2,1),(2,2)[,(3,2),(3,3)]} x 4 command scripts x NUTS/MCLMC presets: every chain's recorded rows are bit-identical to a sequential single-chain reference built through Settings::new_chain, and chains differ pairwise; low-rank presets included; chains built with different RNG streams from the same start differ, with the same stream agree.",
      E2_NOTE, "stateless preemption-bounded DFS over thread schedules of the real controller (shuttle + own scheduler), bit-exact differential oracle against sequential replay", "4/C10")
claim("C11", "model_checking", E2,
      "All command scripts over {pause,resume,progress,flush,inspect,wait_timeout(0)} up to length 2 (3 thorough) x {abort, wait_timeout} x 5 chain/core configurations, every word of length 3-4 over {pause,resume} with chains > cores, plus commands after completion; every schedule up to the preemption bound: no deadlock/livelock/panic, every call returns, complete traces or exact prefixes, progress counters and inspect snapshots consistent with the event log.",
      E2_NOTE, "stateless preemption-bounded DFS over thread schedules x exhaustive command scripts; history predicates on the event log", "4/C11")
claim("C12", "model_checking", E2,
      "Pause-window scripts (pause/sleep-until-quiescent/resume, repeated pauses, resume-only, pause with chains > cores) under every schedule up to the bound: draws recorded by a chain after pause() returned are bounded by the control commands queued for it, unstarted chains stay idle, final traces equal the uninterrupted sequential reference.",
      E2_NOTE, "stateless preemption-bounded DFS over thread schedules; pause-window counting oracle + differential oracle", "4/C12")
claim("C13", "model_checking", E2,
      "Fault site (model construction, init_position, all inits failing, unrecoverable/recoverable density error at EVERY evaluation index of a run, storage record/finalize/flush/inspect/init failures) x faulty chain x chains/cores x terminal call x script (incl. progress+abort overtaking a faulty draw), every schedule up to the bound: the error surfaces as Err through wait_timeout/abort, never a panic in the caller, hang or success; recoverable errors never end a chain.",
      E2_NOTE, "fault-site enumeration x stateless preemption-bounded DFS over thread schedules", "4/C13")

claim("C06", "exploration", E1,
      "Configuration sweep through the public API: num_tune 0..=60 and {100,150,400[,1000,2000]} x six presets x step-size methods x jitter x window options; per draw: tuning flag, transformation index frozen from the start of the final window, constant step_size_bar and jitter band after warmup; plus runs with a divergence forced in the last warmup draw, the first posterior draw and the one after it. The warmup-schedule automaton itself (all good/rejected/divergent histories) is explored under C09.",
      "Trusted: the start of the final window is re-derived from the documented options (num_tune - floor(step_size_window*num_tune); flow: floor(num_tune*(1-step_size_window))); ChaCha8 seeds are fixed configuration values; one 3-d Gaussian target.",
      "bounded-exhaustive configuration enumeration (every num_tune 0..60 x presets x methods) on the real chains", "4/C06")

claim("C16", "exploration", E1,
      "Exhaustive over the option lattice (six presets x 2^4 store flags x store_mass_matrix x use_grad_based_estimate x dims 0/1/2[/5], diagonal Gaussian and - for the low-rank presets - a correlated one so that eigenvalues are retained) x divergence placements (every single draw and every pair of draws of a 12-draw history): names and order, value variant vs declared type, length vs declared dims, presence rules for non-event / divergence / transformation-update statistics, draw counter and chain id; num_tune 8, 0 and 1.",
      "Trusted: the harness' reading of the Storable contract; divergences are injected through the density (recoverable error / huge logp drop); one diagonal (and one correlated) Gaussian target per dimension.",
      "bounded-exhaustive enumeration of the option lattice x fault placements on real chains", "4/C16")

claim("C14", "exploration", E1,
      "Scenario enumeration over the storage trait seam (StorageConfig/TraceStorage/ChainStorage): backends {HashMap, ndarray, Arrow, Zarr sync memory+filesystem, Zarr async, CSV} x presets x (a warmup, b sampling rows) 0..=3(4) x chains {1,2} x store_warmup x {plain, flush after every record, inspect after every record} x aborted prefixes x every subset of diverging draws (a+b <= 4), every pair of distinct per-chain divergence patterns, trace-level inspect x chunk sizes; rows produced by real chains over a model with variables of every type x shape and special values; every backend is read back with a fresh reader and compared cell by cell with the recorded reference trace (so backends agree transitively).",
      "Trusted: the zarrs/arrow/csv readers used for read-back; HashMap iteration order inside the Zarr writers is not owned - each Zarr scenario is repeated 3 (8) times with fresh hash keys, which is repetition, not enumeration; preallocated Zarr rows holding fill values are not counted as stored warmup draws.",
      "bounded-exhaustive scenario enumeration on the real back ends with a recording reference backend (differential oracle)", "4/C14")

claim("C15", "model_checking", E1,
      "Crash-point enumeration on the real Zarr writers through the storage trait seam: record(warmup)^a record(sample)^b on 1-2 chains x EVERY subset of flush positions x chunk sizes {1, below, equal, above, not dividing} x writers {sync/memory, sync/filesystem, async behind a write gate that holds chunk writes for 0/1/2 operations or until the writer waits}; the store is read by a fresh reader after every record, flush and finalisation: complete right after flush, rows covered by the last flush intact at every later point, complete after finalisation. Additionally the real Sampler over the Zarr memory store: Sampler::flush at two quiescent points (all chains finished, paused mid-run) against the finalised store (differential).",
      "Trusted: the zarrs reader; a crash is the store content at an operation boundary (torn writes inside one key are outside the property); the async completion order is owned at the store seam (hold/release), the polling order of simultaneously runnable tokio tasks is not enumerated; Sampler::flush at non-quiescent points (trace mutex) is exercised under C10-C12 with a model back end.",
      "exhaustive enumeration of flush-position subsets x crash points x write-completion timings on the real writers, reference = recorded rows", "4/C15")

claim("C19", "exploration", E1,
      "Six presets x default and every single-field substitution over a per-type alphabet (thorough: all pairs): JSON round trip is a fixed point, the Debug rendering of the value is identical before and after, every field that holds a value appears in the JSON (values reached by JSON substitution incl. integers beyond 2^53, and values built directly in Rust for every enum variant), and chains built from the round-tripped settings are bit-identical. The trace-metadata clause: the sampler_settings attribute written by the sync and async Zarr writers for every substituted settings value, into a fresh store and into a store that already holds a trace with other settings, read back with a fresh reader, equals the settings JSON.",
      "Trusted: serde_json; non-finite floats are outside the quantifier; chains are compared on one 3-d Gaussian for 30 (NUTS) / 10 (MCLMC) draws with a 200k-evaluation watchdog.",
      "bounded-exhaustive enumeration of field substitutions, differential oracle on real chains", "4/C19")

claim("C05", "fault_enumeration", E1,
      "Every evaluation index k of a complete run (set_position + warmup + 4 draws) x 8 fault kinds, plus pairs of faults in a sliding window, for Diag/LowRank NUTS (Euclidean, ExactNormal), Flow NUTS and DiagMclmc (dynamic step size on/off): no panic, unrecoverable error returned by the call that evaluated, trajectory faults reported as divergences, returned position bit-identical to an earlier valid state with the logp/gradient the density answered for it, finite step size, mass-matrix scales and adaptation statistics, no frozen chain afterwards; configurations with extra_doublings = 2; initialisation through the retrying entry point with a fault in the first attempt; an Err from a draw in which no fault fired is reported under its own oracle.",
      "Trusted: 2-d Gaussian target; evaluation phases derived from the density's own log and Progress.num_steps; fixed ChaCha8 seed. One open known finding (fault at the step-size re-initialisation inside adapt).",
      "exhaustive fault-position x fault-kind enumeration on the real chains (public API)", "4/C05")

claim("C09", "model_checking", E1,
      "Explicit-state search over the real GlobalStrategy::adapt (diagonal and low-rank estimators), one call per draw with the explored event {good, not-good, divergent}: every event word for num_tune <= 7 (10 thorough) in lock-step with the reference schedule automaton (window counts, window growth, switch condition, update bookkeeping, step-size search re-run, tuning flag, frozen transformation) and with reference dual averaging of the early/symmetric statistic; BFS with de-duplication on the schedule's own counters up to num_tune 14 (24), for hand-picked option sets and for the full product of small option alphabets (864 sets per estimator); the all-words part also with the real Adam estimator against an Adam reference.",
      "Trusted: the reference automaton R-schedule written from the property text (c09.rs) and R-dualavg; synthetic collectors built through hook H1; de-duplication key = (draw, foreground, background, window, last_update, has_initial), sound because the schedule code reads nothing else.",
      "explicit-state BFS/exhaustive word enumeration over the real transition function with canonical-state de-duplication, lock-step reference model", "4/C09")

claim("C07", "model_checking", E1,
      "Open-loop exploration of the real DualAverage / Adam / Strategy::init: all acceptance sequences over a 6-symbol alphabet up to length 6 (7) in lock-step with the published recurrences, every single-entry raise for monotonicity, 729 parameter combinations, constant all-0/all-1 runs of length 2000, the initial doubling/halving search (dual averaging and Adam) on Gaussian scales 1e-4..1e4 against one-step acceptances recomputed with the real leapfrog, the estimator restarting from the search result, and the trajectory acceptance statistic of real chain histories with injected faults (0 for a divergent leapfrog) against the mirror chain's recorded energies. The closed-loop sentence of the property is statistical and not decided.",
      "Trusted: R-dualavg / R-adam reference recurrences; leapfrog (checked under C02) for the one-step acceptance of the search oracle. One open known finding (no lower clamp: step size underflows to 0 with gamma 0.01).",
      "exhaustive enumeration of acceptance sequences (depth-bounded) against a reference recurrence, pairwise monotonicity check", "4/C07")

claim("C02", "exploration", E1,
      "Bounded-exhaustive over an explicit alphabet: dimensions {1..64} x three kinetic-energy kinds x diagonal (scales 1e-3..1e3, non-zero mean) and low-rank (ranks 0,1,2,d) transformations x step sizes of both signs x three densities x start points: one real leapfrog step vs an independent dense-matrix reference in the original space (textbook leapfrog / harmonic splitting / closed-form ESH), transformation round trip, gradient pull-back and log-determinant vs dense LU, forward+backward = identity, all {F,B} sequences up to length 4 (path independence), finite-difference Jacobian determinant, energy-error order, exact ExactNormal conservation, re-whitening after a transformation change (diagonal and low-rank, incl. the log-determinant), equivalence of a step taken with step_size_factor f at base size eps/f and the step of size eps; low-rank transformations whose diagonal was first initialised from a gradient.",
      "Trusted: the dense reference (refmodel.rs); values outside the alphabet are not covered; ill-conditioned cases (stiff quartic, saturated ESH update) are counted and only judged by the one-step comparison.",
      "bounded-exhaustive input enumeration + all short operation sequences against a dense reference model", "4/C02")

claim("C01", "model_checking", E1,
      "For every configuration of a finite grid (4 targets x identity/diagonal/low-rank transformations x Euclidean/ExactNormal x step sizes x start points/momenta x maxdepth) EVERY answer vector of the scripted RNG (doubling directions x accept/reject of every merge) of the real nuts::draw is executed and compared with the reference NUTS on the recorded trajectory; a second pass probes every accept threshold at p_ref(1 -+ 1e-9); the exact kernel rows are assembled and detailed balance pi(z)P(z->z') = pi(z')P(z'->z) is asserted against exhaustive re-runs from every reachable z'; mirrored direction sequences reproduce the same trajectory and stopping depth.",
      "Trusted: R-nuts (common/rnuts.rs); the integrator (C02); the grid stands for the continuum; executions with a decision margin < 1e-7 are counted, not judged; depth <= 3 (4 thorough).",
      "exhaustive choice-tree exploration of the real transition function over an owned RNG seam, lock-step reference model, exact detailed-balance check", "4/C01")

claim("C03", "model_checking", E1,
      "Chain histories of the real NutsChain (diagonal / low-rank adaptation x Euclidean / ExactNormal, dims 0-2, maxdepth 0-3, mindepth 0/1, target_integration_time inside and beyond what maxdepth allows, tight/loose max_energy_error, adaptive and fixed step sizes, optional injected divergence), 2-3 draws deep, every direction and accept/reject answer within a reject budget of 2 (3): each history is replayed on an independent mirror chain whose recorded trajectories are judged by R-nuts (termination exactly when prescribed, selected index, depth, flags, number of U-turn products), and the real chain's positions, Progress and statistics (logp, gradient, energy, energy_error, depth, n_steps, index, flags) must agree bit for bit.",
      "Trusted: R-nuts; the mirror loop (nuts::draw + adapt, c03.rs) as the chain-wiring reference; momentum scripted at Math::array_gaussian; jitter off. Flow presets and MCLMC chains are covered by C05/C06/C16/C18 only.",
      "choice-tree exploration (deviation-bounded) of real chain histories over owned RNG/momentum seams, bit-exact differential oracle + reference NUTS", "4/C03")

claim("C08", "model_checking", E1,
      "The real estimators driven directly: diagonal exactness on Gaussians (d 1..6(12), condition numbers up to 1e12, every 3-/4-element draw multiset of a point lattice), low-rank whitening on rank-k perturbed covariances with the mean 0 / 1e3 / 2.5e6 standard deviations from the origin (translation invariance), small estimation windows (3..6 draws, 2n <= d) whitening their own draws, high-dimensional log-determinants with all scales tiny or huge, the default eigenvalue cut-off on targets where it is exact, every window of 3 draws x 3 gradients over the 8-value alphabet {0,1,-1,1e-300,1e300,NaN,+-inf} (524288 windows per diagonal mode, 46656 (262144) low-rank windows, all 64 initialiser inputs): scales finite and positive, log-determinant finite, invalid estimates keep the previous value bit-identically; closed loop fisher_distance after the last update.",
      "Trusted: exact Gaussian gradients; low-rank whitening judged to 2e-3 (gamma = 1e-5 regularisation) with eigval_cutoff 1 for rank > 0 (with the default cut-off only diagonal structure is exactly representable); the transformation mean is not covered by the property and only counted.",
      "value-alphabet exhaustive window enumeration + bounded-exhaustive draw-set enumeration on the real estimators", "4/C08")

claim("C18", "fault_enumeration", E1,
      "DiagMclmc / LowRankMclmc through the public API with a delegating Math wrapper: configuration alphabet (dims, three trajectory kinds, step size x decoherence length x subsample frequency, dynamic step size on/off, switch fractions 0/0.3/1) plus a density fault at every evaluation index of the first three draws and at two successive evaluations: unit momentum after every ESH update and refresh, every update equals the closed-form ESH step and its kinetic-energy change, step counts max(1, round(f L / eps)) (more only under retry, integrated time = base time), divergent draws keep the position bit-identically and refresh the momentum, the Euclidean->Microcanonical switch happens once at the configured draw with a fresh normalised momentum; direct ESH updates for momenta (anti)parallel to the gradient stay on the unit sphere.",
      "Trusted: esh_reference (hyperbolic closed form) for delta < 30; real ChaCha8 stream with a fixed seed; 2-7 dimensional diagonal Gaussian.",
      "configuration alphabet x exhaustive fault-position enumeration on real chains observed at the Math seam", "4/C18")
