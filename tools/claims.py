# Table of claimed checks (exec'd by gen_manifest.py).
HOOKS = {
    "guard": "--cfg nuts_rs_verif (H1), plus --cfg nuts_rs_verif_sched (H2) for the scheduler build",
    "enable": "RUSTFLAGS=\"--cfg nuts_rs_verif\" cargo build --release --offline in engine/seq-harness (path dependency on /repo); done by ./check",
    "baseline_off_cmd": "cd /repo && cargo test --workspace --no-fail-fast --offline",
    "source_commits": ["2ff3719"],
    "add_only": True,
}
NOT_APPLICABLE = {
    "C04": "statistical statement (moments/coverage within Monte-Carlo error over all seeds): no finite alphabet of choice answers represents it; deciding it would be sampling + hypothesis testing, a different technique family (DESIGN.md 4/C04)",
}

claim("C17", "exploration", E1,
      "Bounded-exhaustive enumeration of every vector length 0..=130 x kernel x probe (dense, one-hot at every index, every special value at every index) against a scalar reference; exhaustive over the stated alphabet, not over all floats.",
      "Trusted: the scalar reference formulas in c17.rs; SIMD level = what pulp selects on this CPU; tolerances (n+8)*4 ulp of sum |terms|.",
      "bounded-exhaustive input enumeration (length x index x special value) against scalar reference", "4/C17")
