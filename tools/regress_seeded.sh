#!/bin/bash
# Re-applies every kept seeded change to /repo and requires the check of its own property to
# report it (exit 1); reverts after each. Usage: tools/regress_seeded.sh [name-substring]
cd /verif
filter="${1:-}"
fail=0
for d in seeded/*/; do
  name=$(basename "$d")
  case "$name" in *"$filter"*) ;; *) continue;; esac
  # the check that reports it: the first entry of detected_by_checks (normally its own property)
  prop=$(python3 -c "import json;m=json.load(open('$d/meta.json'));print((m.get('detected_by_checks') or [m['property']])[0])")
  if [ -n "$(git -C /repo status --short)" ]; then echo "/repo not clean"; exit 2; fi
  if ! git -C /repo apply "/verif/$d/patch.diff" 2>/dev/null; then echo "$name: PATCH DOES NOT APPLY"; fail=1; continue; fi
  cp evidence/$prop.json .build/try/$prop.evidence.bak 2>/dev/null
  s=$(date +%s)
  ./check $prop --tier quick > .build/try/regress-$name.log 2>&1
  rc=$?
  e=$(date +%s)
  cp .build/try/$prop.evidence.bak evidence/$prop.json 2>/dev/null
  git -C /repo checkout -- .
  if [ $rc -eq 1 ]; then echo "$name: $prop detected ($(grep -c '^VIOLATION' .build/try/regress-$name.log) lines, $((e-s))s)"; else echo "$name: $prop NOT DETECTED (exit $rc)"; fail=1; fi
done
exit $fail
