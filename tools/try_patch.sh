#!/bin/bash
# usage: tools/try_patch.sh <patch.diff> <ID>... ; applies the patch to /repo, runs the quick checks, reverts
set -u
patch="$1"; shift
cd /verif
if [ -n "$(git -C /repo status --short)" ]; then echo "/repo not clean"; exit 2; fi
git -C /repo apply "$patch" || { echo "patch does not apply"; exit 2; }
mkdir -p /verif/.build/try
for id in "$@"; do
  cp evidence/$id.json .build/try/$id.evidence.bak 2>/dev/null
  ./check $id --tier ${TIER:-quick} > .build/try/$id.log 2>&1
  rc=$?
  echo "== $id exit=$rc  $(grep -c '^VIOLATION' .build/try/$id.log) violation lines; $(grep -E '^violation classes' .build/try/$id.log | cut -c1-300)"
  grep -E '^  key=' .build/try/$id.log | head -${SHOW:-3} | cut -c1-400
  [ $rc -eq 2 ] && tail -5 .build/try/$id.log
  cp .build/try/$id.evidence.bak evidence/$id.json 2>/dev/null
done
git -C /repo checkout -- .
git -C /repo status --short
