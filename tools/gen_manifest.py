#!/usr/bin/env python3
"""Regenerates /verif/MANIFEST.json from the table below and validates it (and any evidence files)."""
import json, os, sys, subprocess
ROOT = os.path.dirname(os.path.dirname(os.path.abspath(__file__)))
props = [json.loads(l) for l in open(os.path.join(ROOT, 'properties.jsonl'))]

E1 = "E1 seq-harness"
E2 = "E2 sched-harness"
claimed = {}
def claim(pid, level, engine, text, note, technique, design):
    claimed[pid] = dict(level=level, engine=engine, text=text, note=note, technique=technique, design=design)

exec(open(os.path.join(ROOT, 'tools', 'claims.py')).read())

checks = []
for pid in sorted(claimed):
    c = claimed[pid]
    checks.append({
        "property_id": pid,
        "quick_cmd": f"./check {pid} --tier quick",
        "thorough_cmd": f"./check {pid} --tier thorough",
        "evidence_file": f"/verif/evidence/{pid}.json",
        "replay_cmd_template": f"./check {pid} --replay {{path}}",
        "engine": c["engine"],
        "level_claimed": {"category": c["level"], "text": c["text"], "design_ref": c["design"]},
        "level_note": c["note"],
        "technique": c["technique"],
    })
na = []
for p in props:
    if p["id"] in claimed:
        continue
    na.append({"property_id": p["id"], "reason": NOT_APPLICABLE.get(p["id"], "check under construction in this session (DESIGN.md section 4); not claimed until its harness is committed")})
engines = [
    {"name": E1, "path": "engine/seq-harness", "serves_properties": sorted(k for k, c in claimed.items() if c["engine"] == E1),
     "kind_free_text": "stateless choice-tree / bounded-exhaustive explorer (mc-core) over the real sequential code with owned RNG, momentum and density seams"},
]
if any(c["engine"] == E2 for c in claimed.values()):
    engines.append({"name": E2, "path": "engine/sched-harness", "serves_properties": sorted(k for k, c in claimed.items() if c["engine"] == E2),
     "kind_free_text": "real src/sampler.rs compiled against a shuttle-based facade (cfg nuts_rs_verif_sched); own iterative preemption-bounded DFS scheduler explores all schedules up to the bound"})
m = {
    "version": 1,
    "setup_cmd": "./check --setup",
    "hooks": HOOKS,
    "engines": engines,
    "checks": checks,
    "not_applicable": na,
    "notes": "Every check: ./check <ID> --tier quick|thorough; rebuilds the harness against /repo's working tree; exit 0/1/2 = held / violation / machinery error (machinery errors are never verdicts).",
}
json.dump(m, open(os.path.join(ROOT, 'MANIFEST.json'), 'w'), indent=1)
try:
    import jsonschema
    jsonschema.validate(m, json.load(open('/root/.vp/MANIFEST.schema.json')))
    es = json.load(open('/root/.vp/EVIDENCE.schema.json'))
    for c in checks:
        f = os.path.join(ROOT, 'evidence', c['property_id'] + '.json')
        if os.path.exists(f):
            ev = json.load(open(f))
            jsonschema.validate(ev, es)
            assert ev['level'] == c['level_claimed']['category'], (c['property_id'], ev['level'])
        else:
            print('note: no evidence file yet for', c['property_id'])
    print('MANIFEST ok:', len(checks), 'checks,', len(na), 'not applicable')
except ImportError:
    print('jsonschema not available; run with python3-vt')
