#!/usr/bin/env python3
"""Regenerates the seeded-change table of DESIGN.md (between the SEEDED-TABLE markers) from seeded/*/meta.json."""
import json, glob, os, re
rows = []
for d in sorted(glob.glob('/verif/seeded/*/')):
    name = os.path.basename(d.rstrip('/'))
    m = json.load(open(d + 'meta.json'))
    note = m.get('confirmed_by_me') or ''
    missed = 'silent at first' in note or 'did not terminate' in note or 'extended, then caught' in note
    needs = (m.get('what_it_needs_to_manifest') or '').replace('\n', ' ').replace('|', '/')
    needs = needs[:140] + ('…' if len(needs) > 140 else '')
    rows.append((name, m['property'], ', '.join(m.get('detected_by_checks') or []), 'extended, then caught' if missed else 'caught as built', needs))
out = ['| seeded change (directory under seeded/) | property | reported by | own check at first | what it needs to manifest (author\'s words, truncated) |', '|---|---|---|---|---|']
for r in rows:
    out.append('| ' + ' | '.join(r) + ' |')
n = len(rows); nm = sum(1 for r in rows if r[3].startswith('extended'))
out.append('')
out.append(f'{n} seeded changes in total; {n - nm} were reported by the check of their own property as it stood, {nm} only after that check had been extended (alphabet or oracle added, nothing loosened). All {n} are reported now (`tools/regress_seeded.sh`).')
txt = '\n'.join(out)
p = '/verif/DESIGN.md'
s = open(p).read()
s = re.sub(r'<!-- SEEDED-TABLE-BEGIN -->.*?<!-- SEEDED-TABLE-END -->', '<!-- SEEDED-TABLE-BEGIN -->\n' + txt + '\n<!-- SEEDED-TABLE-END -->', s, flags=re.S)
open(p, 'w').write(s)
print(n, nm)
