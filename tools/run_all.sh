#!/bin/bash
# usage: tools/run_all.sh quick|thorough  -> runs every claimed check sequentially, prints exit code and wall time
cd /verif
TIER=${1:-quick}
mkdir -p .build/logs
for id in $(python3 -c "import json; print(' '.join(c['property_id'] for c in json.load(open('MANIFEST.json'))['checks']))"); do
  s=$(date +%s)
  ./check $id --tier $TIER > .build/logs/$id-$TIER.log 2>&1
  rc=$?
  e=$(date +%s)
  echo "$id $TIER exit=$rc wall=$((e-s))s $(grep -c '^VIOLATION' .build/logs/$id-$TIER.log) violations $(grep -c '^KNOWN-FINDING' .build/logs/$id-$TIER.log) known"
done
