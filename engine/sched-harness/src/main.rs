//! sched-harness: engine E2. The real `src/sampler.rs` (controller thread, rayon scope, chain
//! loops, command/response/result channels, per-chain mutexes) runs under shuttle with our own
//! preemption-bounded DFS scheduler; every schedule up to the bound is executed and judged.

mod dfs;
mod model;
mod oracle;
mod scenario;

use std::cell::RefCell;
use std::panic::{catch_unwind, AssertUnwindSafe};
use std::sync::{Arc, Mutex};
use std::time::Instant;

use mc_core::{Partial, Report, Tier};
use serde_json::{json, Value};

use dfs::{DfsScheduler, DfsState, Node};
use model::*;
use oracle::{check, expected_for, Expected, Flags};
use scenario::*;

thread_local! {
    static ENGINE_FAILURE: RefCell<Option<String>> = const { RefCell::new(None) };
}

fn shuttle_config() -> shuttle::Config {
    let mut c = shuttle::Config::new();
    c.stack_size = 0x80000;
    c.failure_persistence = shuttle::FailurePersistence::None;
    c.max_steps = shuttle::MaxSteps::FailAfter(200_000);
    c.silence_warnings = true;
    c
}

// ---------------------------------------------------------------------------------------------
// scenario <-> json (replay artefacts)
// ---------------------------------------------------------------------------------------------

fn plan_to_json(p: &FaultPlan) -> Value {
    json!({
        "math_fails": p.math_fails,
        "init_position_fails": p.init_position_fails,
        "dens": p.dens.iter().map(|(c, at, k)| json!([c, at, format!("{k:?}")])).collect::<Vec<_>>(),
        "storage": p.storage.iter().map(|(c, op)| match op {
            StorageOp::Record(n) => json!([c, "Record", n]),
            o => json!([c, format!("{o:?}"), null]),
        }).collect::<Vec<_>>(),
    })
}

fn plan_from_json(v: &Value) -> FaultPlan {
    let mut p = FaultPlan::default();
    p.math_fails = v["math_fails"].as_u64().map(|x| x as usize);
    p.init_position_fails = v["init_position_fails"].as_u64().map(|x| x as usize);
    for d in v["dens"].as_array().cloned().unwrap_or_default() {
        let kind = if d[2].as_str() == Some("Recoverable") {
            DensKind::Recoverable
        } else {
            DensKind::Unrecoverable
        };
        p.dens
            .push((d[0].as_u64().unwrap() as usize, d[1].as_u64(), kind));
    }
    for s in v["storage"].as_array().cloned().unwrap_or_default() {
        let op = match s[1].as_str().unwrap() {
            "Record" => StorageOp::Record(s[2].as_u64().unwrap()),
            "Finalize" => StorageOp::Finalize,
            "Flush" => StorageOp::Flush,
            "Inspect" => StorageOp::Inspect,
            "InitChain" => StorageOp::InitChain,
            _ => StorageOp::NewTrace,
        };
        p.storage.push((s[0].as_u64().unwrap() as usize, op));
    }
    p
}

fn scenario_to_json(s: &Scenario) -> Value {
    let mut v = s.describe();
    v["plan"] = plan_to_json(&s.plan);
    v
}

fn scenario_from_json(v: &Value) -> Scenario {
    let op = |s: &str| match s {
        "Pause" => Op::Pause,
        "Resume" => Op::Resume,
        "Progress" => Op::Progress,
        "Flush" => Op::Flush,
        "Inspect" => Op::Inspect,
        "WaitZero" => Op::WaitZero,
        _ => Op::Sleep,
    };
    Scenario {
        name: v["name"].as_str().unwrap().to_string(),
        preset: match v["preset"].as_str() {
            Some("DiagMclmc") => Preset::DiagMclmc,
            Some("LowRankNuts") => Preset::LowRankNuts,
            Some("LowRankMclmc") => Preset::LowRankMclmc,
            Some("FlowNuts") => Preset::FlowNuts,
            Some("FlowMclmc") => Preset::FlowMclmc,
            _ => Preset::DiagNuts,
        },
        chains: v["chains"].as_u64().unwrap() as usize,
        cores: v["cores"].as_u64().unwrap() as usize,
        seed: v["seed"].as_u64().unwrap(),
        num_tune: v["num_tune"].as_u64().unwrap(),
        num_draws: v["num_draws"].as_u64().unwrap(),
        script: v["script"]
            .as_array()
            .unwrap()
            .iter()
            .map(|o| op(o.as_str().unwrap()))
            .collect(),
        terminal: if v["terminal"].as_str() == Some("Abort") {
            Terminal::Abort
        } else {
            Terminal::WaitLong
        },
        plan: plan_from_json(&v["plan"]),
        bound: v["preemption_bound"].as_u64().unwrap() as u32,
        callback_ms: v["progress_callback_ms"].as_u64(),
    }
}

// ---------------------------------------------------------------------------------------------
// exploration of one scenario
// ---------------------------------------------------------------------------------------------

struct ScenarioResult {
    partial: Partial,
    machinery_error: Option<String>,
}

fn explore_scenario(
    scn: &Scenario,
    flags: Flags,
    max_exec: u64,
    replay: Option<Vec<usize>>,
    verbose: bool,
) -> ScenarioResult {
    explore_scenario_until(scn, flags, max_exec, replay, verbose, None)
}

fn explore_scenario_until(
    scn: &Scenario,
    flags: Flags,
    max_exec: u64,
    replay: Option<Vec<usize>>,
    verbose: bool,
    deadline: Option<Instant>,
) -> ScenarioResult {
    let exp: Arc<Vec<Expected>> = Arc::new((0..scn.chains).map(|c| expected_for(scn, c)).collect());
    let acc: Arc<Mutex<Partial>> = Arc::new(Mutex::new(Partial::new()));
    let state = Arc::new(Mutex::new(DfsState::new(scn.bound, max_exec)));
    let violating = {
        let mut s = state.lock().unwrap();
        s.deadline = deadline;
        // a scenario with this many violating schedules is refuted; exploring the rest of its
        // schedule tree only costs time (a broken controller can make that tree very large)
        s.max_violating = 50;
        s.violating.clone()
    };
    if let Some(r) = &replay {
        let mut s = state.lock().unwrap();
        s.replay_only = true;
        s.stack = r
            .iter()
            .map(|t| Node {
                options: vec![(*t, 0)],
                chosen: 0,
                pre_before: 0,
            })
            .collect();
        s.replay_tasks = true;
    }
    {
        let acc = acc.clone();
        let exp = exp.clone();
        let scn2 = scn.clone();
        let cb = move |schedule: &[usize]| {
            let obs = OBS.with(|o| std::mem::take(&mut *o.borrow_mut()));
            let log = LOG.with(|l| std::mem::take(&mut *l.borrow_mut()));
            let ef = ENGINE_FAILURE.with(|e| e.borrow_mut().take());
            let verdict = check(&scn2, &exp, &obs, &log, ef.as_deref(), flags);
            let mut a = acc.lock().unwrap();
            a.validated += 1;
            if verbose {
                println!("schedule: {schedule:?}");
                println!("events: {:?}", log.events);
                println!("ops: {:?}", obs.ops);
                println!("final: {}", oracle::short_final(&obs.fin));
                if let Some(f) = &ef {
                    println!("engine failure: {f}");
                }
                for (k, d) in &verdict.violations {
                    println!("VIOLATED {k}: {d}");
                }
            }
            let first = a.samples.is_empty();
            if first {
                a.sample(json!({
                    "scenario": scenario_to_json(&scn2),
                    "schedule_task_ids": schedule,
                    "recording_order": log.events.iter().filter_map(|e| match e { Event::Record{chain, n} => Some(format!("{chain}.{n}")), _ => None }).collect::<Vec<_>>(),
                    "final": oracle::short_final(&obs.fin),
                }));
            }
            a.class(verdict.class);
            if !verdict.violations.is_empty() {
                violating.fetch_add(1, std::sync::atomic::Ordering::Relaxed);
            }
            for (k, d) in verdict.violations {
                a.violation(
                    k,
                    d,
                    json!({"scenario": scenario_to_json(&scn2), "schedule": schedule}),
                );
            }
        };
        state.lock().unwrap().on_execution_end = Some(Box::new(cb));
    }

    let mut machinery_error = None;
    loop {
        let runner = shuttle::Runner::new(DfsScheduler::new(state.clone()), shuttle_config());
        let scn2 = scn.clone();
        let r = catch_unwind(AssertUnwindSafe(|| {
            runner.run(move || run_body(&scn2));
        }));
        match r {
            Ok(()) => {
                let mut s = state.lock().unwrap();
                s.end_execution();
                if let Some(n) = s.nondeterminism.clone() {
                    machinery_error = Some(n);
                }
                break;
            }
            Err(p) => {
                // shuttle stopped the run: deadlock, step bound, or a panic that escaped a task
                let msg = panic_msg(&p);
                ENGINE_FAILURE.with(|e| *e.borrow_mut() = Some(msg));
                let mut s = state.lock().unwrap();
                s.end_execution();
                if s.replay_only || s.exhausted {
                    break;
                }
            }
        }
    }
    let st = state.lock().unwrap();
    let mut partial = std::mem::take(&mut *acc.lock().unwrap());
    partial.evaluations += st.stats.executions;
    partial.states += st.stats.states;
    partial.transitions += st.stats.transitions;
    partial.count("alternatives_pruned_by_preemption_bound", st.stats.pruned_by_bound);
    partial.count("max_schedule_length", 0);
    if st.cap_hit {
        partial
            .caps
            .insert(format!("execution cap {} hit in scenario {}", max_exec, scn.name));
    }
    if st.deadline_hit {
        partial.caps.insert(format!("wall budget reached while exploring scenario {} ({} schedules done)", scn.name, st.stats.executions));
    }
    if st.stopped_after_violations {
        partial.count("scenarios_abandoned_after_50_violating_schedules", 1);
    }
    ScenarioResult {
        partial,
        machinery_error,
    }
}

// ---------------------------------------------------------------------------------------------
// scenario sets
// ---------------------------------------------------------------------------------------------

fn base(name: String, preset: Preset, chains: usize, cores: usize, script: Vec<Op>, terminal: Terminal, bound: u32) -> Scenario {
    Scenario {
        name,
        preset,
        chains,
        cores,
        seed: 42,
        num_tune: 1,
        num_draws: 2,
        script,
        terminal,
        plan: FaultPlan::default(),
        bound,
        callback_ms: None,
    }
}

fn script_name(s: &[Op]) -> String {
    if s.is_empty() {
        "none".into()
    } else {
        s.iter().map(|o| format!("{o:?}")).collect::<Vec<_>>().join("+")
    }
}

fn scenarios_c10(tier: Tier) -> Vec<Scenario> {
    let mut out = vec![];
    let cfgs: Vec<(usize, usize)> = tier.pick(vec![(1, 1), (2, 1), (2, 2)], vec![(1, 1), (2, 1), (2, 2), (3, 2), (3, 3)]);
    let scripts: Vec<Vec<Op>> = vec![
        vec![],
        vec![Op::Pause, Op::Resume],
        vec![Op::Progress, Op::Progress],
        vec![Op::Flush, Op::Inspect],
    ];
    let seeds: Vec<u64> = tier.pick(vec![42], vec![42, 7]);
    for preset in [Preset::DiagNuts, Preset::DiagMclmc] {
        for &(ch, co) in &cfgs {
            for sc in &scripts {
                for &seed in &seeds {
                    let bound = match tier {
                        Tier::Quick => if ch >= 2 && !sc.is_empty() { 1 } else { 2 },
                        Tier::Thorough => if ch >= 3 { 2 } else { 3.min(if sc.is_empty() { 3 } else { 2 }) },
                    };
                    let mut s = base(
                        format!("{preset:?}/c{ch}k{co}/{}/seed{seed}", script_name(sc)),
                        preset, ch, co, sc.clone(), Terminal::WaitLong, bound,
                    );
                    s.seed = seed;
                    out.push(s);
                }
            }
        }
    }
    // (round 14, after C10l) a run that is cut short: abort while some chains are done and others
    // are not - what the prefix trace holds for chain i must still be chain i's rows, at
    // position i
    for preset in [Preset::DiagNuts, Preset::DiagMclmc] {
        for &(ch, co) in tier.pick(&[(2usize, 2usize)][..], &[(2usize, 1usize), (2, 2), (3, 2)][..]) {
            for sc in [vec![], vec![Op::Progress]] {
                let mut s = base(
                    format!("{preset:?}/c{ch}k{co}/{}/Abort/seed42", script_name(&sc)),
                    preset, ch, co, sc.clone(), Terminal::Abort, tier.pick(1, 2),
                );
                s.seed = 42;
                out.push(s);
            }
        }
    }
    // the default seed of every preset
    for preset in [Preset::DiagNuts, Preset::DiagMclmc] {
        for &(ch, co) in &[(1usize, 1usize), (2, 1), (2, 2)] {
            let mut s = base(format!("{preset:?}/c{ch}k{co}/none/seed0"), preset, ch, co, vec![], Terminal::WaitLong, tier.pick(1, 2));
            s.seed = 0;
            out.push(s);
        }
    }
    // a chain whose first initial point is rejected (recoverable density error) retries from its
    // OWN random stream: its rows must not depend on what other chains have done by then
    for preset in [Preset::DiagNuts, Preset::DiagMclmc] {
        for &(ch, co) in &[(2usize, 1usize), (2, 2)] {
            for faulty in 0..ch {
                for evals in [vec![0u64], vec![0, 1]] {
                    let mut s = base(
                        format!("{preset:?}/c{ch}k{co}/init-attempts-{}-of-chain{faulty}-rejected/seed42", evals.len()),
                        preset, ch, co, vec![], Terminal::WaitLong, tier.pick(2, 3),
                    );
                    s.seed = 42;
                    s.plan = FaultPlan { dens: evals.iter().map(|k| (faulty, Some(*k), DensKind::Recoverable)).collect(), ..Default::default() };
                    out.push(s);
                }
            }
        }
    }
    // the low-rank presets: chain construction (per-chain random streams) and a plain run (the flow
    // presets need a model with a normalising flow, which the scheduler model does not have)
    for preset in [Preset::LowRankNuts, Preset::LowRankMclmc] {
        for &(ch, co) in &[(2usize, 1usize), (2, 2)] {
            for sc in [vec![], vec![Op::Pause, Op::Resume]] {
                let mut s = base(
                    format!("{preset:?}/c{ch}k{co}/{}/seed42", script_name(&sc)),
                    preset, ch, co, sc.clone(), Terminal::WaitLong, 1,
                );
                s.seed = 42;
                out.push(s);
            }
        }
    }
    out
}

fn all_scripts(alphabet: &[Op], max_len: usize) -> Vec<Vec<Op>> {
    let mut out: Vec<Vec<Op>> = vec![vec![]];
    let mut frontier: Vec<Vec<Op>> = vec![vec![]];
    for _ in 0..max_len {
        let mut next = vec![];
        for s in &frontier {
            for o in alphabet {
                let mut t = s.clone();
                t.push(*o);
                next.push(t);
            }
        }
        out.extend(next.iter().cloned());
        frontier = next;
    }
    out
}

fn scenarios_c11(tier: Tier) -> Vec<Scenario> {
    let alphabet = [Op::Pause, Op::Resume, Op::Progress, Op::Flush, Op::Inspect, Op::WaitZero];
    let mut out = vec![];
    let cfgs: Vec<(usize, usize)> = vec![(1, 1), (1, 2), (2, 1), (2, 2), (3, 1)];
    let max_len = tier.pick(2, 3);
    for &(ch, co) in &cfgs {
        for sc in all_scripts(&alphabet, max_len) {
            for term in [Terminal::Abort, Terminal::WaitLong] {
                let bound = match (tier, sc.len(), ch) {
                    (Tier::Quick, 0..=1, _) => 2,
                    (Tier::Quick, _, 1) => 2,
                    (Tier::Quick, _, _) => 1,
                    (Tier::Thorough, 0..=2, _) => 2,
                    (Tier::Thorough, _, 1) => 2,
                    (Tier::Thorough, _, _) => 1,
                };
                // the largest configuration is kept to short scripts
                if ch >= 3 && sc.len() > tier.pick(1, 2) {
                    continue;
                }
                out.push(base(
                    format!("DiagNuts/c{ch}k{co}/{}/{term:?}", script_name(&sc)),
                    Preset::DiagNuts, ch, co, sc.clone(), term, bound,
                ));
            }
        }
    }
    // repeated pause / resume with more chains than cores: every word of length 3 and 4 over
    // {pause, resume} (a chain that has not been scheduled yet accumulates the commands)
    for &(ch, co) in &[(2usize, 1usize), (3, 1)] {
        for len in [3usize, 4] {
            for sc in all_scripts(&[Op::Pause, Op::Resume], len).into_iter().filter(|s| s.len() == len) {
                if tier == Tier::Thorough && len == 3 && ch == 2 {
                    continue; // already part of the full alphabet above
                }
                for term in [Terminal::Abort, Terminal::WaitLong] {
                    out.push(base(
                        format!("DiagNuts/c{ch}k{co}/{}/{term:?}", script_name(&sc)),
                        Preset::DiagNuts, ch, co, sc.clone(), term, 1,
                    ));
                }
            }
        }
    }
    // (round 13, after C11k) a progress callback makes the controller a timed waiter and brings its
    // time-keeping (sampling time = wall time - pauses) into play: the clock advances while the
    // user sleeps in a pause window, then matched and unmatched resumes follow
    {
        let scripts: Vec<Vec<Op>> = tier.pick(
            vec![
                vec![],
                vec![Op::Pause, Op::Sleep, Op::Resume],
                vec![Op::Pause, Op::Sleep, Op::Resume, Op::Resume],
                vec![Op::Sleep, Op::Resume, Op::Resume],
            ],
            vec![
                vec![],
                vec![Op::Progress],
                vec![Op::Pause, Op::Sleep, Op::Resume],
                vec![Op::Pause, Op::Sleep, Op::Resume, Op::Resume],
                vec![Op::Pause, Op::Sleep, Op::Resume, Op::Resume, Op::Resume],
                vec![Op::Sleep, Op::Resume, Op::Resume],
                vec![Op::Resume, Op::Resume],
                vec![Op::Pause, Op::Sleep, Op::Pause, Op::Sleep, Op::Resume],
                vec![Op::Pause, Op::Sleep, Op::Resume, Op::Pause, Op::Sleep, Op::Resume, Op::Resume],
                vec![Op::Pause, Op::Sleep, Op::Flush, Op::Resume],
            ],
        );
        for &(ch, co) in &[(1usize, 1usize), (2, 1), (2, 2)] {
            for sc in &scripts {
                // two chains running in parallel next to a controller that wakes up periodically:
                // the sleeping scripts exceed the execution cap there (measured), kept to (2, 1)
                if ch == 2 && co == 2 && sc.contains(&Op::Sleep) {
                    continue;
                }
                for term in [Terminal::Abort, Terminal::WaitLong] {
                    let mut s = base(
                        format!("DiagNuts/c{ch}k{co}/callback/{}/{term:?}", script_name(sc)),
                        Preset::DiagNuts, ch, co, sc.clone(), term, 1,
                    );
                    s.callback_ms = Some(10);
                    out.push(s);
                }
            }
        }
    }
    // commands after completion: sleep until everything is done, then issue commands
    for &(ch, co) in &[(1usize, 1usize), (2, 1)] {
        for cmd in [Op::Pause, Op::Resume, Op::Progress, Op::Flush, Op::Inspect] {
            for term in [Terminal::Abort, Terminal::WaitLong] {
                out.push(base(
                    format!("DiagNuts/c{ch}k{co}/Sleep+{cmd:?}+after-completion/{term:?}"),
                    Preset::DiagNuts, ch, co, vec![Op::Sleep, cmd, Op::Progress], term, tier.pick(1, 2),
                ));
            }
        }
    }
    out
}

/// flush / inspect / progress while a chain is inside `record_sample` (it holds its trace lock
/// across a scheduling point: a store that takes time)
fn scenarios_c11_slow_store(tier: Tier) -> Vec<Scenario> {
    let mut out = vec![];
    // (two chains that both yield inside record_sample alternate at every row: with 2 cores the
    // tree has millions of schedules at bound 1 - left out)
    let cfgs: Vec<(usize, usize)> = vec![(1, 1), (2, 1)];
    let scripts: Vec<Vec<Op>> = tier.pick(
        vec![vec![Op::Flush], vec![Op::Pause, Op::Flush, Op::Resume]],
        vec![vec![Op::Flush], vec![Op::Flush, Op::Flush], vec![Op::Progress, Op::Flush], vec![Op::Inspect, Op::Flush], vec![Op::Pause, Op::Flush, Op::Resume]],
    );
    for &(ch, co) in &cfgs {
        for sc in &scripts {
            // (the extra scheduling point per recorded row makes bound 2 with two chains too large)
            let bound = if ch == 1 { tier.pick(1, 2) } else { 1 };
            let mut s = base(format!("DiagNuts/c{ch}k{co}/slow-store/{}/WaitLong", script_name(sc)), Preset::DiagNuts, ch, co, sc.clone(), Terminal::WaitLong, bound);
            s.plan.slow_store = true;
            out.push(s);
        }
    }
    out
}

fn scenarios_c12(tier: Tier) -> Vec<Scenario> {
    let scripts: Vec<Vec<Op>> = vec![
        vec![Op::Pause, Op::Sleep, Op::Resume],
        vec![Op::Pause, Op::Pause, Op::Sleep, Op::Resume],
        vec![Op::Pause, Op::Sleep, Op::Progress, Op::Resume],
        vec![Op::Pause, Op::Sleep, Op::Resume, Op::Pause, Op::Sleep, Op::Resume],
        vec![Op::Resume],
        vec![Op::Resume, Op::Pause, Op::Sleep, Op::Resume],
        vec![Op::Pause, Op::Sleep],
        // commands that are not pause / resume, issued inside a pause window: nothing may move
        vec![Op::Pause, Op::Sleep, Op::Flush, Op::Sleep, Op::Resume],
        vec![Op::Pause, Op::Sleep, Op::Inspect, Op::Sleep, Op::Resume],
        vec![Op::Pause, Op::Sleep, Op::Progress, Op::Sleep, Op::Resume],
        vec![Op::Pause, Op::Flush, Op::Sleep],
    ];
    let cfgs: Vec<(usize, usize)> = tier.pick(vec![(1, 1), (2, 1), (2, 2)], vec![(1, 1), (2, 1), (2, 2), (3, 1), (3, 2)]);
    let mut out = vec![];
    for preset in [Preset::DiagNuts, Preset::DiagMclmc] {
        for &(ch, co) in &cfgs {
            for sc in &scripts {
                if preset == Preset::DiagMclmc && sc.len() > 4 {
                    continue;
                }
                let bound = match tier {
                    Tier::Quick => if (ch >= 2 && sc.len() > 4) || (ch >= 2 && co >= 2) { 1 } else { 2 },
                    Tier::Thorough => if ch >= 3 || (ch >= 2 && co >= 2) || sc.len() > 4 { 2 } else { 3 },
                };
                out.push(base(
                    format!("{preset:?}/c{ch}k{co}/{}", script_name(sc)),
                    preset, ch, co, sc.clone(), Terminal::WaitLong, bound,
                ));
            }
        }
    }
    // many commands queued for one chain between two of its polls: every word of length 5 (6)
    // over {pause, resume} issued back to back, and a five-command word ending in pause with more
    // draws per chain than commands (so that "one further draw per queued command" binds)
    for &(ch, co) in &[(1usize, 1usize), (2, 1)] {
        for len in tier.pick(vec![5usize], vec![5usize, 6]) {
            for w in 0..(1u32 << len) {
                let sc: Vec<Op> = (0..len).map(|i| if (w >> i) & 1 == 0 { Op::Pause } else { Op::Resume }).collect();
                out.push(base(format!("DiagNuts/c{ch}k{co}/{}", script_name(&sc)), Preset::DiagNuts, ch, co, sc, Terminal::WaitLong, 1));
            }
        }
        for tail in [vec![Op::Sleep, Op::Resume], vec![Op::Sleep]] {
            let mut sc = vec![Op::Pause, Op::Resume, Op::Pause, Op::Resume, Op::Pause];
            sc.extend(tail);
            let mut s = base(format!("DiagNuts/c{ch}k{co}/draws8/{}", script_name(&sc)), Preset::DiagNuts, ch, co, sc, Terminal::WaitLong, 1);
            s.num_tune = 2;
            s.num_draws = 6;
            out.push(s);
        }
    }
    out
}

fn count_evals(scn: &Scenario, chain: usize) -> u64 {
    EVALS.with(|e| e.set(0));
    let _ = reference(scn, chain);
    EVALS.with(|e| e.get())
}

fn scenarios_c13(tier: Tier) -> Vec<Scenario> {
    let mut out = vec![];
    let cfgs: Vec<(usize, usize)> = tier.pick(vec![(1, 1), (2, 1), (2, 2)], vec![(1, 1), (2, 1), (2, 2), (3, 2)]);
    let bound = tier.pick(1, 2);
    for &(ch, co) in &cfgs {
        let proto = base(String::new(), Preset::DiagNuts, ch, co, vec![], Terminal::WaitLong, bound);
        let n_eval = count_evals(&proto, 0);
        let mut plans: Vec<(String, FaultPlan)> = vec![];
        // model construction
        for who in 0..=ch {
            plans.push((format!("math-fails-who{who}"), FaultPlan { math_fails: Some(who), ..Default::default() }));
        }
        for c in 0..ch {
            plans.push((format!("init-position-fails-chain{c}"), FaultPlan { init_position_fails: Some(c), ..Default::default() }));
            // 500 initialisation attempts per execution: expensive, kept to the small configurations
            if ch * co <= 2 {
                plans.push((format!("all-inits-fail-chain{c}"), FaultPlan { dens: vec![(c, None, DensKind::Recoverable)], ..Default::default() }));
            }
        }
        // density faults at every evaluation index of the faulty chain (last chain, and chain 0 in thorough)
        let faulty_chains: Vec<usize> = if tier == Tier::Thorough && ch > 1 { vec![0, ch - 1] } else { vec![ch - 1] };
        for &c in &faulty_chains {
            for k in 0..n_eval {
                plans.push((format!("unrecoverable-chain{c}-eval{k}"), FaultPlan { dens: vec![(c, Some(k), DensKind::Unrecoverable)], ..Default::default() }));
                plans.push((format!("recoverable-chain{c}-eval{k}"), FaultPlan { dens: vec![(c, Some(k), DensKind::Recoverable)], ..Default::default() }));
            }
        }
        // storage faults
        for c in 0..ch {
            for n in 0..3u64 {
                plans.push((format!("record{n}-fails-chain{c}"), FaultPlan { storage: vec![(c, StorageOp::Record(n))], ..Default::default() }));
            }
            plans.push((format!("finalize-fails-chain{c}"), FaultPlan { storage: vec![(c, StorageOp::Finalize)], ..Default::default() }));
            plans.push((format!("init-chain-fails-chain{c}"), FaultPlan { storage: vec![(c, StorageOp::InitChain)], ..Default::default() }));
        }
        plans.push(("new-trace-fails".into(), FaultPlan { storage: vec![(0, StorageOp::NewTrace)], ..Default::default() }));
        // two faulty chains
        if ch >= 2 {
            plans.push(("unrecoverable-two-chains".into(), FaultPlan { dens: vec![(0, Some(n_eval / 2), DensKind::Unrecoverable), (1, Some(n_eval - 1), DensKind::Unrecoverable)], ..Default::default() }));
            plans.push(("record-fails-two-chains".into(), FaultPlan { storage: vec![(0, StorageOp::Record(1)), (1, StorageOp::Record(0))], ..Default::default() }));
        }
        for (pname, plan) in plans {
            let is_dens_sweep = pname.contains("-eval");
            for term in [Terminal::WaitLong, Terminal::Abort] {
                let scripts: Vec<Vec<Op>> = if pname.starts_with("all-inits-fail") {
                    vec![vec![]]
                } else if is_dens_sweep {
                    // [Progress]: the user thread blocks in progress() while the chains advance, so
                    // that one preemption lets abort()/wait overtake a chain whose faulty draw is
                    // still in flight
                    vec![vec![], vec![Op::Progress]]
                } else {
                    vec![vec![], vec![Op::Pause, Op::Resume]]
                };
                for sc in scripts {
                    // abort right after start stops the chains before most evaluations happen:
                    // the plain script is kept to the first evaluation in quick
                    if is_dens_sweep && sc.is_empty() && term == Terminal::Abort && tier == Tier::Quick && !pname.ends_with("eval0") {
                        continue;
                    }
                    if is_dens_sweep && !sc.is_empty() && term == Terminal::WaitLong && tier == Tier::Quick {
                        continue;
                    }
                    let mut s = base(
                        format!("DiagNuts/c{ch}k{co}/{pname}/{}/{term:?}", script_name(&sc)),
                        Preset::DiagNuts, ch, co, sc, term, bound,
                    );
                    s.plan = plan.clone();
                    out.push(s);
                }
            }
        }
        // (round 13, after C13k) the microcanonical chain has its own error path: a draw retries a
        // failed step with halved step sizes (dynamic step size, the preset's default), so an
        // unrecoverable error can arrive *inside* such a retry. Single unrecoverable faults and
        // the pairs (recoverable at k, unrecoverable at k+1 / k+2) at every evaluation index.
        if ch == co {
            let proto = base(String::new(), Preset::DiagMclmc, ch, co, vec![], Terminal::WaitLong, bound);
            let n_eval_m = count_evals(&proto, ch - 1);
            let c = ch - 1;
            for k in 0..n_eval_m {
                let mut plans: Vec<(String, FaultPlan)> = vec![
                    (format!("unrecoverable-chain{c}-eval{k}"), FaultPlan { dens: vec![(c, Some(k), DensKind::Unrecoverable)], ..Default::default() }),
                    (format!("recoverable-chain{c}-eval{k}+unrecoverable-eval{}", k + 1), FaultPlan { dens: vec![(c, Some(k), DensKind::Recoverable), (c, Some(k + 1), DensKind::Unrecoverable)], ..Default::default() }),
                ];
                if tier == Tier::Thorough {
                    plans.push((format!("recoverable-chain{c}-eval{k}+unrecoverable-eval{}", k + 2), FaultPlan { dens: vec![(c, Some(k), DensKind::Recoverable), (c, Some(k + 2), DensKind::Unrecoverable)], ..Default::default() }));
                    plans.push((format!("recoverable-chain{c}-eval{k}+{}+unrecoverable-eval{}", k + 1, k + 2), FaultPlan { dens: vec![(c, Some(k), DensKind::Recoverable), (c, Some(k + 1), DensKind::Recoverable), (c, Some(k + 2), DensKind::Unrecoverable)], ..Default::default() }));
                }
                for (pname, plan) in plans {
                    for term in tier.pick(vec![Terminal::WaitLong], vec![Terminal::WaitLong, Terminal::Abort]) {
                        let sc: Vec<Op> = if term == Terminal::Abort { vec![Op::Progress] } else { vec![] };
                        let mut s = base(
                            format!("DiagMclmc/c{ch}k{co}/{pname}/{}/{term:?}", script_name(&sc)),
                            Preset::DiagMclmc, ch, co, sc, term, bound,
                        );
                        s.plan = plan.clone();
                        out.push(s);
                    }
                }
            }
        }
        // flush / inspect storage faults need the command in the script
        for c in 0..ch {
            for (op, sop) in [(Op::Flush, StorageOp::Flush), (Op::Inspect, StorageOp::Inspect)] {
                for term in [Terminal::WaitLong, Terminal::Abort] {
                    let mut s = base(
                        format!("DiagNuts/c{ch}k{co}/{sop:?}-fails-chain{c}/{op:?}/{term:?}"),
                        Preset::DiagNuts, ch, co, vec![op], term, bound,
                    );
                    s.plan = FaultPlan { storage: vec![(c, sop)], ..Default::default() };
                    out.push(s);
                }
            }
        }
    }
    out
}

// ---------------------------------------------------------------------------------------------
// main
// ---------------------------------------------------------------------------------------------

fn install_quiet_panic_hook() {
    // let shuttle install its hook first (std::sync::Once), then replace it: injected faults make
    // many executions panic on purpose and the default hooks would flood stderr
    let warm = shuttle::Runner::new(
        DfsScheduler::new(Arc::new(Mutex::new(DfsState::new(0, 1)))),
        shuttle_config(),
    );
    warm.run(|| {});
    if std::env::var("VERIF_SHOW_PANICS").is_err() {
        std::panic::set_hook(Box::new(|_| {}));
    }
}

fn main() {
    let args: Vec<String> = std::env::args().collect();
    if args.len() < 2 {
        eprintln!("usage: sched-harness <C10|C11|C12|C13> [--tier quick|thorough] [--replay file] [--only substring]");
        std::process::exit(2);
    }
    let id = args[1].clone();
    let mut tier_arg = None;
    let mut replay = None;
    let mut only: Option<String> = None;
    let mut i = 2;
    while i < args.len() {
        match args[i].as_str() {
            "--tier" => { tier_arg = args.get(i + 1).cloned(); i += 2; }
            "--replay" => { replay = args.get(i + 1).cloned(); i += 2; }
            "--only" => { only = args.get(i + 1).cloned(); i += 2; }
            _ => i += 1,
        }
    }
    let tier = Tier::from_env_or(tier_arg.as_deref());
    install_quiet_panic_hook();

    let flags = match id.as_str() {
        "C10" => Flags { c10: true, ..Default::default() },
        "C11" => Flags { c11: true, ..Default::default() },
        "C12" => Flags { c12: true, ..Default::default() },
        "C13" => Flags { c13: true, ..Default::default() },
        _ => {
            eprintln!("MACHINERY-ERROR: unknown property id {id}");
            std::process::exit(2);
        }
    };

    if let Some(path) = replay {
        let txt = std::fs::read_to_string(&path).unwrap_or_else(|e| {
            eprintln!("MACHINERY-ERROR: cannot read {path}: {e}");
            std::process::exit(2)
        });
        let v: Value = serde_json::from_str(&txt).unwrap();
        let scn = scenario_from_json(&v["replay"]["scenario"]);
        let sched: Vec<usize> = v["replay"]["schedule"]
            .as_array()
            .unwrap()
            .iter()
            .map(|x| x.as_u64().unwrap() as usize)
            .collect();
        // replay twice: identical observations required
        let r1 = explore_scenario(&scn, flags, 1, Some(sched.clone()), true);
        let r2 = explore_scenario(&scn, flags, 1, Some(sched), false);
        if let Some(e) = r1.machinery_error.or(r2.machinery_error) {
            eprintln!("MACHINERY-ERROR: {e}");
            std::process::exit(2);
        }
        let k1: Vec<_> = r1.partial.violations.iter().map(|v| v.key.clone()).collect();
        let k2: Vec<_> = r2.partial.violations.iter().map(|v| v.key.clone()).collect();
        if k1 != k2 || r1.partial.classes != r2.partial.classes {
            eprintln!("MACHINERY-ERROR: two replays of the same schedule disagree");
            std::process::exit(2);
        }
        if k1.is_empty() {
            println!("replay: no violation");
            std::process::exit(0);
        } else {
            println!("VIOLATION property={id} replay={path}");
            std::process::exit(1);
        }
    }

    let mut scenarios = match id.as_str() {
        "C10" => scenarios_c10(tier),
        "C11" => { let mut v = scenarios_c11(tier); v.extend(scenarios_c11_slow_store(tier)); v }
        "C12" => scenarios_c12(tier),
        _ => scenarios_c13(tier),
    };
    if let Some(o) = &only {
        scenarios.retain(|s| s.name.contains(o.as_str()));
    }
    let rule = "every schedule (interleaving of user thread, controller thread, pool workers/chains at every mutex, channel, spawn and join operation of the real sampler.rs) up to the preemption bound, for every scenario of the set (preset x chains x cores x command script x terminal call x fault plan); a case is distinct when its global recording order / API results differ";
    let mut report = Report::new(&id, tier, "model_checking", rule);
    report.assume("sequential consistency at scheduling points (the controller uses only mutexes and channels, no atomics)");
    report.assume("rayon's scope_fifo is replaced by a FIFO pool shim with its documented semantics; real time is abstracted: a timed wait times out only when no other task can run (or immediately for a zero timeout)");
    report.assume("a progress callback (a second finite-timeout waiter) only in the callback/ scenarios of C11");
    let max_exec: u64 = tier.pick(400_000, 6_000_000);
    report.bounds = json!({
        "scenarios": scenarios.len(),
        "preemption_bounds_used": scenarios.iter().map(|s| s.bound).collect::<std::collections::BTreeSet<_>>(),
        "max_executions_per_scenario": max_exec,
        "draws_per_chain": 3,
    });
    if id == "C10" {
        // per-chain random streams, all presets the scheduler model supports
        let proto = base(String::new(), Preset::DiagNuts, 2, 1, vec![], Terminal::WaitLong, 0);
        let mut p = Partial::new();
        let checks: Vec<(&str, Option<String>)> = vec![
            ("DiagNuts", model::stream_check(&scenario::nuts_settings(&proto))),
            ("DiagMclmc", model::stream_check(&scenario::mclmc_settings(&proto))),
            ("LowRankNuts", model::stream_check(&scenario::lowrank_nuts_settings(&proto))),
            ("LowRankMclmc", model::stream_check(&scenario::lowrank_mclmc_settings(&proto))),
        ];
        for (name, r) in checks {
            p.evaluations += 3;
            if let Some(msg) = r {
                p.violation(format!("C10/chain-ignores-its-random-stream/{name}"), msg, json!({"preset": name}));
            }
        }
        report.merge(p);
    }
    let t0 = Instant::now();
    let machinery: Mutex<Option<String>> = Mutex::new(None);
    let budget_s: f64 = std::env::var("VERIF_BUDGET_S").ok().and_then(|s| s.parse().ok()).unwrap_or(tier.pick(300.0, 1200.0));
    mc_core::par_for_each(&scenarios, |_, scn| {
        if t0.elapsed().as_secs_f64() > budget_s {
            let mut p = Partial::new();
            p.caps.insert(format!("wall budget {budget_s}s: scenario {} not explored", scn.name));
            report.merge(p);
            return;
        }
        let ts = Instant::now();
        let r = explore_scenario_until(scn, flags, max_exec, None, false, Some(t0 + std::time::Duration::from_secs_f64(budget_s)));
        if std::env::var("VERIF_VERBOSE").is_ok() {
            eprintln!(
                "scenario {} bound={} executions={} violations={} {:.2}s",
                scn.name,
                scn.bound,
                r.partial.evaluations,
                r.partial.violations.len(),
                ts.elapsed().as_secs_f64()
            );
        }
        if let Some(e) = r.machinery_error {
            *machinery.lock().unwrap() = Some(format!("{}: {e}", scn.name));
        }
        report.merge(r.partial);
    });
    if let Some(e) = machinery.into_inner().unwrap() {
        eprintln!("MACHINERY-ERROR: {e}");
        std::process::exit(2);
    }
    std::process::exit(report.finish());
}
