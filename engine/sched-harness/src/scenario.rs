//! Scenario = (preset, chains, cores, command script, terminal call, fault plan). The body drives
//! the real `nuts_rs::Sampler` API from the user thread; everything it observes goes into `UserObs`.

use std::cell::RefCell;
use std::panic::{catch_unwind, AssertUnwindSafe};
use std::time::Duration;

use nuts_rs::{
    DiagMclmcSettings, DiagNutsSettings, MclmcTrajectoryKind, Sampler, SamplerWaitResult, Settings,
};

use crate::model::*;

#[derive(Clone, Copy, Debug, PartialEq, Eq, PartialOrd, Ord, Hash)]
pub enum Op {
    Pause,
    Resume,
    Progress,
    Flush,
    Inspect,
    /// wait_timeout(0): returns what is available right now
    WaitZero,
    /// the user thread sleeps until nothing else can run (marks a pause window when paused)
    Sleep,
}

#[derive(Clone, Copy, Debug, PartialEq, Eq, PartialOrd, Ord, Hash)]
pub enum Terminal {
    Abort,
    /// wait_timeout(1000 s)
    WaitLong,
}

#[derive(Clone, Copy, Debug, PartialEq, Eq, PartialOrd, Ord, Hash)]
pub enum Preset {
    DiagNuts,
    DiagMclmc,
    LowRankNuts,
    LowRankMclmc,
    FlowNuts,
    FlowMclmc,
}

#[derive(Clone, Debug)]
pub struct Scenario {
    pub name: String,
    pub preset: Preset,
    pub chains: usize,
    pub cores: usize,
    pub seed: u64,
    pub num_tune: u64,
    pub num_draws: u64,
    pub script: Vec<Op>,
    pub terminal: Terminal,
    pub plan: FaultPlan,
    pub bound: u32,
    /// install a progress callback with this rate (virtual milliseconds); `None`: no callback
    pub callback_ms: Option<u64>,
}

impl Scenario {
    pub fn describe(&self) -> serde_json::Value {
        serde_json::json!({
            "name": self.name,
            "preset": format!("{:?}", self.preset),
            "chains": self.chains,
            "cores": self.cores,
            "seed": self.seed,
            "num_tune": self.num_tune,
            "num_draws": self.num_draws,
            "script": self.script.iter().map(|o| format!("{o:?}")).collect::<Vec<_>>(),
            "terminal": format!("{:?}", self.terminal),
            "faults": self.plan.describe(),
            "preemption_bound": self.bound,
            "progress_callback_ms": self.callback_ms,
        })
    }
    pub fn total_draws(&self) -> usize {
        (self.num_tune + self.num_draws) as usize
    }
}

pub fn nuts_settings(scn: &Scenario) -> DiagNutsSettings {
    DiagNutsSettings {
        num_tune: scn.num_tune,
        num_draws: scn.num_draws,
        maxdepth: 2,
        num_chains: scn.chains,
        seed: scn.seed,
        store_unconstrained: true,
        store_gradient: true,
        store_divergences: true,
        ..Default::default()
    }
}

pub fn mclmc_settings(scn: &Scenario) -> DiagMclmcSettings {
    DiagMclmcSettings {
        num_tune: scn.num_tune,
        num_draws: scn.num_draws,
        num_chains: scn.chains,
        seed: scn.seed,
        step_size: 0.5,
        momentum_decoherence_length: 1.0,
        trajectory_kind: MclmcTrajectoryKind::Microcanonical,
        store_unconstrained: true,
        ..Default::default()
    }
}

pub fn lowrank_nuts_settings(scn: &Scenario) -> nuts_rs::LowRankNutsSettings {
    nuts_rs::LowRankNutsSettings { num_tune: scn.num_tune, num_draws: scn.num_draws, maxdepth: 2, num_chains: scn.chains, seed: scn.seed, store_unconstrained: true, store_gradient: true, store_divergences: true, ..Default::default() }
}

pub fn flow_nuts_settings(scn: &Scenario) -> nuts_rs::FlowNutsSettings {
    nuts_rs::FlowNutsSettings { num_tune: scn.num_tune, num_draws: scn.num_draws, maxdepth: 2, num_chains: scn.chains, seed: scn.seed, store_unconstrained: true, store_gradient: true, store_divergences: true, ..Default::default() }
}

pub fn lowrank_mclmc_settings(scn: &Scenario) -> nuts_rs::LowRankMclmcSettings {
    nuts_rs::LowRankMclmcSettings { num_tune: scn.num_tune, num_draws: scn.num_draws, num_chains: scn.chains, seed: scn.seed, step_size: 0.5, momentum_decoherence_length: 1.0, trajectory_kind: MclmcTrajectoryKind::Microcanonical, store_unconstrained: true, ..Default::default() }
}

pub fn flow_mclmc_settings(scn: &Scenario) -> nuts_rs::FlowMclmcSettings {
    let mut s = nuts_rs::FlowMclmcSettings { num_tune: scn.num_tune, num_draws: scn.num_draws, num_chains: scn.chains, seed: scn.seed, step_size: 0.5, momentum_decoherence_length: 1.0, trajectory_kind: MclmcTrajectoryKind::Microcanonical, store_unconstrained: true, ..Default::default() };
    // keep the step size fixed: the flow preset would otherwise adapt it with dual averaging
    s.adapt_options.step_size_settings.adapt_options.method = nuts_rs::StepSizeAdaptMethod::Fixed(0.5);
    s
}

#[derive(Clone, Debug)]
pub struct ProgressSnap {
    pub finished: usize,
    pub total: usize,
    pub divergences: usize,
    pub total_steps: usize,
    pub latest_steps: usize,
    pub started: bool,
    pub tuning: bool,
    pub divergent_draws: Vec<usize>,
}

#[derive(Clone, Debug)]
pub enum OpOutcome {
    Ok,
    Err(String),
    Panic(String),
    Progress {
        log_start: usize,
        log_end: usize,
        snaps: Vec<ProgressSnap>,
    },
    Inspect {
        log_start: usize,
        log_end: usize,
        err: Option<String>,
        fin: RecFinal,
    },
    WaitZeroTimeout,
    /// the script ended early because a wait returned a final result
    EarlyFinal,
    Slept,
}

#[derive(Clone, Debug)]
pub enum Final {
    NotReached,
    NewFailed(String),
    Trace(RecFinal),
    Timeout,
    WaitErr(String, Option<RecFinal>),
    AbortOk(Option<String>, RecFinal),
    AbortErr(String),
    Panic(String),
}

#[derive(Clone, Debug)]
pub struct UserObs {
    pub ops: Vec<(Op, OpOutcome)>,
    pub fin: Final,
    pub paused_at_terminal: bool,
    pub log_len_at_terminal_call: usize,
    pub windows: Vec<(usize, usize, usize)>, // (log idx open, log idx close, control commands issued so far)
    pub body_completed: bool,
}

impl Default for UserObs {
    fn default() -> Self {
        UserObs {
            ops: vec![],
            fin: Final::NotReached,
            paused_at_terminal: false,
            log_len_at_terminal_call: 0,
            windows: vec![],
            body_completed: false,
        }
    }
}

thread_local! {
    pub static OBS: RefCell<UserObs> = RefCell::new(UserObs::default());
}

pub fn panic_msg(p: &Box<dyn std::any::Any + Send>) -> String {
    if let Some(s) = p.downcast_ref::<&str>() {
        s.to_string()
    } else if let Some(s) = p.downcast_ref::<String>() {
        s.clone()
    } else {
        "<non-string panic payload>".to_string()
    }
}

fn snap(p: &[nuts_rs::ChainProgress]) -> Vec<ProgressSnap> {
    p.iter()
        .map(|c| ProgressSnap {
            finished: c.finished_draws,
            total: c.total_draws,
            divergences: c.divergences,
            total_steps: c.total_num_steps,
            latest_steps: c.latest_num_steps,
            started: c.started,
            tuning: c.tuning,
            divergent_draws: c.divergent_draws.clone(),
        })
        .collect()
}

/// park the user thread until no other task can run (timed waiters get their timeout first)
fn sleep_until_quiescent() {
    sched_facade::sleep_until_quiescent();
}

fn run_with<S: Settings>(scn: &Scenario, settings: S) {
    sched_facade::reset_execution_state();
    log_reset();
    OBS.with(|o| *o.borrow_mut() = UserObs::default());
    let mut obs = UserObs::default();

    let model = HModel::new(scn.seed, scn.chains, scn.plan.clone());
    let cfg = RecConfig {
        plan: scn.plan.clone(),
    };
    let cores = scn.cores;
    let created = catch_unwind(AssertUnwindSafe(|| {
        let callback = scn.callback_ms.map(|ms| nuts_rs::ProgressCallback {
            callback: Box::new(|elapsed: std::time::Duration, progress: Box<[nuts_rs::ChainProgress]>| {
                // the time reported as spent sampling can never exceed the time that has passed
                let now = sched_facade::virtual_now();
                log_event(Event::Callback { elapsed_ns: elapsed.as_nanos() as u64, now_ns: now.as_nanos() as u64, chains: progress.len() });
            }),
            rate: std::time::Duration::from_millis(ms),
        });
        Sampler::new(model, settings, cfg, cores, callback)
    }));
    let mut sampler: Option<Sampler<RecFinal>> = match created {
        Ok(Ok(s)) => Some(s),
        Ok(Err(e)) => {
            obs.fin = Final::NewFailed(format!("{e:#}"));
            None
        }
        Err(p) => {
            obs.fin = Final::Panic(format!("Sampler::new: {}", panic_msg(&p)));
            None
        }
    };

    let mut paused = false;
    let mut commands_issued = 0usize;
    let mut early_final = false;
    for (i, op) in scn.script.iter().enumerate() {
        if sampler.is_none() {
            break;
        }
        log_event(Event::OpStart(i));
        let outcome = match op {
            Op::Pause | Op::Resume | Op::Flush => {
                let s = sampler.as_mut().unwrap();
                if *op == Op::Resume && paused {
                    // the pause window (if one is open) closes when resume is *called*
                }
                let r = catch_unwind(AssertUnwindSafe(|| match op {
                    Op::Pause => s.pause(),
                    Op::Resume => s.resume(),
                    _ => s.flush(),
                }));
                match op {
                    Op::Pause => {
                        paused = true;
                        commands_issued += 1;
                    }
                    Op::Resume => {
                        paused = false;
                        commands_issued += 1;
                    }
                    _ => {}
                }
                match r {
                    Ok(Ok(())) => OpOutcome::Ok,
                    Ok(Err(e)) => OpOutcome::Err(format!("{e:#}")),
                    Err(p) => OpOutcome::Panic(panic_msg(&p)),
                }
            }
            Op::Progress => {
                let s = sampler.as_mut().unwrap();
                let log_start = log_len();
                let r = catch_unwind(AssertUnwindSafe(|| s.progress()));
                let log_end = log_len();
                match r {
                    Ok(Ok(p)) => OpOutcome::Progress {
                        log_start,
                        log_end,
                        snaps: snap(&p),
                    },
                    Ok(Err(e)) => OpOutcome::Err(format!("{e:#}")),
                    Err(p) => OpOutcome::Panic(panic_msg(&p)),
                }
            }
            Op::Inspect => {
                let s = sampler.as_mut().unwrap();
                let log_start = log_len();
                let r = catch_unwind(AssertUnwindSafe(|| s.inspect()));
                let log_end = log_len();
                match r {
                    Ok(Ok((e, fin))) => OpOutcome::Inspect {
                        log_start,
                        log_end,
                        err: e.map(|e| format!("{e:#}")),
                        fin,
                    },
                    Ok(Err(e)) => OpOutcome::Err(format!("{e:#}")),
                    Err(p) => OpOutcome::Panic(panic_msg(&p)),
                }
            }
            Op::WaitZero => {
                let s = sampler.take().unwrap();
                let r = catch_unwind(AssertUnwindSafe(|| s.wait_timeout(Duration::ZERO)));
                match r {
                    Ok(SamplerWaitResult::Timeout(s)) => {
                        sampler = Some(s);
                        OpOutcome::WaitZeroTimeout
                    }
                    Ok(SamplerWaitResult::Trace(t)) => {
                        obs.fin = Final::Trace(t);
                        early_final = true;
                        OpOutcome::EarlyFinal
                    }
                    Ok(SamplerWaitResult::Err(e, t)) => {
                        obs.fin = Final::WaitErr(format!("{e:#}"), t);
                        early_final = true;
                        OpOutcome::EarlyFinal
                    }
                    Err(p) => {
                        obs.fin = Final::Panic(format!("wait_timeout(0): {}", panic_msg(&p)));
                        early_final = true;
                        OpOutcome::Panic(panic_msg(&p))
                    }
                }
            }
            Op::Sleep => {
                let open = log_len();
                if paused {
                    log_event(Event::WindowOpen);
                    let snap: Vec<(usize, u64)> = crate::model::LOG.with(|l| l.borrow().chain_evals.iter().map(|(k, v)| (*k, *v)).collect());
                    log_event(Event::EvalSnapshot(snap));
                }
                sleep_until_quiescent();
                if paused {
                    log_event(Event::WindowClose);
                    obs.windows.push((open, log_len(), commands_issued));
                }
                OpOutcome::Slept
            }
        };
        log_event(Event::OpEnd(i));
        obs.ops.push((*op, outcome));
        if early_final {
            break;
        }
    }

    if let (Some(s), false) = (sampler.take(), early_final) {
        obs.paused_at_terminal = paused;
        obs.log_len_at_terminal_call = log_len();
        log_event(Event::OpStart(usize::MAX));
        match scn.terminal {
            Terminal::Abort => {
                let r = catch_unwind(AssertUnwindSafe(|| s.abort()));
                obs.fin = match r {
                    Ok(Ok((e, t))) => Final::AbortOk(e.map(|e| format!("{e:#}")), t),
                    Ok(Err(e)) => Final::AbortErr(format!("{e:#}")),
                    Err(p) => Final::Panic(format!("abort: {}", panic_msg(&p))),
                };
            }
            Terminal::WaitLong => {
                let r = catch_unwind(AssertUnwindSafe(|| {
                    s.wait_timeout(Duration::from_secs(1000))
                }));
                obs.fin = match r {
                    Ok(SamplerWaitResult::Trace(t)) => Final::Trace(t),
                    Ok(SamplerWaitResult::Timeout(s)) => {
                        drop(s);
                        Final::Timeout
                    }
                    Ok(SamplerWaitResult::Err(e, t)) => Final::WaitErr(format!("{e:#}"), t),
                    Err(p) => Final::Panic(format!("wait_timeout: {}", panic_msg(&p))),
                };
            }
        }
        log_event(Event::OpEnd(usize::MAX));
    }
    obs.body_completed = true;
    OBS.with(|o| *o.borrow_mut() = obs);
}

pub fn run_body(scn: &Scenario) {
    match scn.preset {
        Preset::DiagNuts => run_with(scn, nuts_settings(scn)),
        Preset::DiagMclmc => run_with(scn, mclmc_settings(scn)),
        Preset::LowRankNuts => run_with(scn, lowrank_nuts_settings(scn)),
        Preset::LowRankMclmc => run_with(scn, lowrank_mclmc_settings(scn)),
        Preset::FlowNuts => run_with(scn, flow_nuts_settings(scn)),
        Preset::FlowMclmc => run_with(scn, flow_mclmc_settings(scn)),
    }
}

pub fn reference(scn: &Scenario, chain: usize) -> RefOutcome {
    match scn.preset {
        Preset::DiagNuts => sequential_reference(&nuts_settings(scn), scn.chains, chain, &scn.plan),
        Preset::DiagMclmc => {
            sequential_reference(&mclmc_settings(scn), scn.chains, chain, &scn.plan)
        }
        Preset::LowRankNuts => sequential_reference(&lowrank_nuts_settings(scn), scn.chains, chain, &scn.plan),
        Preset::LowRankMclmc => sequential_reference(&lowrank_mclmc_settings(scn), scn.chains, chain, &scn.plan),
        Preset::FlowNuts => sequential_reference(&flow_nuts_settings(scn), scn.chains, chain, &scn.plan),
        Preset::FlowMclmc => sequential_reference(&flow_mclmc_settings(scn), scn.chains, chain, &scn.plan),
    }
}
