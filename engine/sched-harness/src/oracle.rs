//! History predicates over one execution (R-controller of DESIGN.md): the event log of the
//! recording backend, the return values of the `Sampler` API and the sequential references.

use crate::model::*;
use crate::scenario::*;

#[derive(Clone, Copy, Debug, Default)]
pub struct Flags {
    pub c10: bool,
    pub c11: bool,
    pub c12: bool,
    pub c13: bool,
}

pub struct Expected {
    /// rows the chain records when it runs alone (truncated at an injected storage failure)
    pub rows: Vec<String>,
    /// Some(msg): the chain must end with an error
    pub fails: Option<String>,
    /// density evaluations the chain needs before its first draw (u64::MAX: it never gets there)
    pub setup_evals: u64,
}

pub fn expected_for(scn: &Scenario, chain: usize) -> Expected {
    let (mut rows, mut fails) = match reference(scn, chain) {
        RefOutcome::Complete(r) => (r, None),
        RefOutcome::Failed(r, m) => (r, Some(m)),
    };
    let setup_evals = crate::model::LAST_SETUP_EVALS.with(|c| c.get());
    for (c, op) in &scn.plan.storage {
        if *c == chain {
            if let StorageOp::Record(n) = op {
                if (*n as usize) < rows.len() || fails.is_none() {
                    rows.truncate(*n as usize);
                    fails = Some(format!("INJECTED storage failure chain={chain} op={op:?}"));
                }
            }
        }
    }
    Expected { rows, fails, setup_evals }
}

fn records_before(events: &[Event], upto: usize, chain: usize) -> usize {
    events[..upto.min(events.len())]
        .iter()
        .filter(|e| matches!(e, Event::Record { chain: c, .. } if *c == chain))
        .count()
}

fn is_prefix(a: &[String], b: &[String]) -> bool {
    a.len() <= b.len() && a.iter().zip(b).all(|(x, y)| x == y)
}

fn first_diff(a: &[String], b: &[String]) -> String {
    for (i, (x, y)) in a.iter().zip(b).enumerate() {
        if x != y {
            return format!("row {i}: got `{}` expected `{}`", trunc(x), trunc(y));
        }
    }
    format!("lengths {} vs {}", a.len(), b.len())
}

fn trunc(s: &str) -> String {
    s.chars().take(220).collect()
}

fn sampler_was_created(obs: &UserObs) -> bool {
    !matches!(obs.fin, Final::NewFailed(_)) && !matches!(&obs.fin, Final::Panic(m) if m.starts_with("Sampler::new"))
}

pub struct Verdict {
    pub violations: Vec<(String, String)>,
    /// observation class (for counting distinct outcomes)
    pub class: String,
}

pub fn check(
    scn: &Scenario,
    exp: &[Expected],
    obs: &UserObs,
    log: &ExecLog,
    engine_failure: Option<&str>,
    flags: Flags,
) -> Verdict {
    let mut v: Vec<(String, String)> = vec![];
    let ev = &log.events;
    let total = scn.total_draws();
    let healthy = scn.plan.is_empty();
    let mut add = |prop: &str, oracle: &str, detail: String| {
        v.push((format!("{prop}/{oracle}/{}", scn.name), detail));
    };

    // ---- engine-level failures: deadlock, livelock (step bound), escaped panic ----
    if let Some(f) = engine_failure {
        let kind = if f.contains("deadlock") {
            "deadlock"
        } else if f.contains("max_steps") {
            "livelock"
        } else {
            "escaped-panic"
        };
        let p = if flags.c13 { "C13" } else { "C11" };
        add(p, kind, trunc(f));
    }
    if !obs.body_completed && engine_failure.is_none() {
        let p = if flags.c13 { "C13" } else { "C11" };
        add(p, "user-thread-did-not-finish", String::new());
    }

    // ---- panics that reached the caller ----
    let mut panics: Vec<String> = vec![];
    for (op, o) in &obs.ops {
        if let OpOutcome::Panic(m) = o {
            panics.push(format!("{op:?}: {m}"));
        }
    }
    if let Final::Panic(m) = &obs.fin {
        panics.push(m.clone());
    }
    for m in &panics {
        let p = if flags.c13 { "C13" } else { "C11" };
        add(p, "panic-reached-caller", trunc(m));
    }

    // ---- (round 14, after C10l) positional back ends (the HashMap back end returns a Vec with
    // one entry per chain) identify a chain by its position: the per-chain results handed to
    // TraceStorage::finalize must arrive in ascending chain order under every schedule ----
    {
        let fin: Option<&RecFinal> = match &obs.fin {
            Final::Trace(f) | Final::AbortOk(_, f) | Final::WaitErr(_, Some(f)) => Some(f),
            _ => None,
        };
        if let Some(f) = fin {
            let ids: Vec<usize> = f.chains.iter().map(|c| c.chain).collect();
            if ids.windows(2).any(|w| w[0] >= w[1]) {
                let p = if flags.c10 { "C10" } else if flags.c12 { "C12" } else if flags.c13 { "C13" } else { "C11" };
                add(p, "chain-results-finalized-out-of-chain-order", format!("{ids:?}"));
            }
        }
    }

    // ---- progress callback (scenarios that install one): sampling time <= time passed ----
    if scn.callback_ms.is_some() {
        for e in ev {
            if let Event::Callback { elapsed_ns, now_ns, chains } = e {
                if elapsed_ns > now_ns {
                    add("C11", "callback-sampling-time-exceeds-wall-time", format!("{elapsed_ns} ns reported after {now_ns} ns"));
                }
                if *chains != scn.chains {
                    add("C11", "callback-progress-length", format!("{chains}"));
                }
            }
        }
        if healthy && sampler_was_created(obs) && !ev.iter().any(|e| matches!(e, Event::Callback { .. })) {
            add("C11", "callback-never-called", String::new());
        }
    }

    // ---- C10: recorded rows are bit-identical to the sequential reference ----
    if flags.c10 || flags.c11 || flags.c12 || flags.c13 {
        for c in 0..scn.chains {
            let got: &[String] = log.rows.get(&c).map(|r| r.as_slice()).unwrap_or(&[]);
            if !is_prefix(got, &exp[c].rows) {
                let p = if flags.c10 {
                    "C10"
                } else if flags.c12 {
                    "C12"
                } else if flags.c13 {
                    "C13"
                } else {
                    "C11"
                };
                add(
                    p,
                    "rows-differ-from-sequential-reference",
                    format!("chain {c}: {}", first_diff(got, &exp[c].rows)),
                );
            }
        }
    }

    // ---- structural sanity of the storage protocol (C11) ----
    if flags.c11 || flags.c12 {
        for c in 0..scn.chains {
            let mut finalized_at: Option<usize> = None;
            let mut n_final = 0;
            for (i, e) in ev.iter().enumerate() {
                match e {
                    Event::ChainFinalize { chain } if *chain == c => {
                        n_final += 1;
                        finalized_at.get_or_insert(i);
                    }
                    Event::Record { chain, .. } if *chain == c => {
                        if finalized_at.is_some() {
                            add("C11", "record-after-finalize", format!("chain {c} event {i}"));
                        }
                    }
                    _ => {}
                }
            }
            if n_final > 1 {
                add("C11", "finalized-twice", format!("chain {c}: {n_final}"));
            }
        }
    }

    // ---- a flush that reports success has reached every chain that holds unflushed rows ----
    if flags.c11 || flags.c12 {
        for (k, (op, o)) in obs.ops.iter().enumerate() {
            if *op != Op::Flush || !matches!(o, OpOutcome::Ok) {
                continue;
            }
            let start = ev.iter().position(|e| matches!(e, Event::OpStart(i) if *i == k));
            let end = ev.iter().position(|e| matches!(e, Event::OpEnd(i) if *i == k));
            let (Some(start), Some(end)) = (start, end) else { continue };
            for c in 0..scn.chains {
                let rows_before = records_before(ev, start, c);
                let finalized = ev[..end].iter().any(|e| matches!(e, Event::ChainFinalize { chain } if *chain == c));
                let flushed = ev[start..end].iter().any(|e| matches!(e, Event::ChainFlush { chain } if *chain == c));
                if rows_before > 0 && !finalized && !flushed {
                    add("C11", "flush-returned-ok-but-skipped-a-chain", format!("op {k}: chain {c} had recorded {rows_before} rows, was not finalised and its storage was not flushed"));
                }
            }
        }
    }

    // ---- per-op results ----
    let mut class_bits: Vec<String> = vec![];
    for (i, (op, o)) in obs.ops.iter().enumerate() {
        match o {
            OpOutcome::Err(m) => {
                if healthy && (flags.c11 || flags.c12) {
                    add("C11", "command-failed", format!("op {i} {op:?}: {}", trunc(m)));
                }
            }
            OpOutcome::Progress {
                log_start,
                log_end,
                snaps,
            } => {
                if snaps.len() != scn.chains {
                    add("C11", "progress-length", format!("{}", snaps.len()));
                }
                for (c, s) in snaps.iter().enumerate() {
                    class_bits.push(format!("p{c}={}", s.finished));
                    if !(flags.c11 || flags.c12) {
                        continue;
                    }
                    let lo = records_before(ev, *log_start, c);
                    let hi = records_before(ev, *log_end, c) + 1;
                    if s.finished < lo || s.finished > hi {
                        add(
                            "C11",
                            "progress-finished-draws-inconsistent",
                            format!("chain {c}: finished={} but records in [{lo},{}]", s.finished, hi - 1),
                        );
                    }
                    if s.total != total {
                        add("C11", "progress-total", format!("chain {c}: {}", s.total));
                    }
                    if s.finished > total {
                        add("C11", "progress-finished-exceeds-total", format!("chain {c}: {}", s.finished));
                    }
                    // counters must describe the first `finished` draws of the chain
                    if s.finished <= exp[c].rows.len() {
                        let mut div = 0usize;
                        let mut steps = 0usize;
                        let mut divergent = vec![];
                        let mut latest = 0usize;
                        let mut tuning = true;
                        for (k, r) in exp[c].rows[..s.finished].iter().enumerate() {
                            let (d, t, n) = row_progress_fields(r);
                            if d && !t {
                                div += 1;
                                divergent.push(k);
                            }
                            steps += n as usize;
                            latest = n as usize;
                            tuning = t;
                        }
                        if s.divergences != div
                            || s.total_steps != steps
                            || s.divergent_draws != divergent
                            || (s.finished > 0 && (s.latest_steps != latest || s.tuning != tuning))
                        {
                            add(
                                "C11",
                                "progress-counters-disagree-with-trace",
                                format!(
                                    "chain {c}: finished={} divergences={} (trace {div}) total_steps={} (trace {steps}) latest={} (trace {latest}) tuning={} (trace {tuning})",
                                    s.finished, s.divergences, s.total_steps, s.latest_steps, s.tuning
                                ),
                            );
                        }
                    }
                    if s.finished > 0 && !s.started {
                        add("C11", "progress-started-flag", format!("chain {c}"));
                    }
                }
            }
            OpOutcome::Inspect {
                log_start,
                log_end,
                err,
                fin,
            } => {
                if flags.c13
                    && scn.plan.storage.iter().any(|(_, o)| *o == StorageOp::Inspect)
                    && err.is_none()
                {
                    add(
                        "C13",
                        "inspect-error-not-reported",
                        "a chain's inspect() failed but Sampler::inspect returned no error".into(),
                    );
                }
                if !(flags.c11 || flags.c12) {
                    continue;
                }
                if healthy {
                    if let Some(e) = err {
                        add("C11", "inspect-error", trunc(e));
                    }
                }
                for cf in &fin.chains {
                    let c = cf.chain;
                    if c >= scn.chains {
                        add("C11", "inspect-unknown-chain", format!("{c}"));
                        continue;
                    }
                    let lo = records_before(ev, *log_start, c);
                    let hi = records_before(ev, *log_end, c);
                    if !is_prefix(&cf.rows, &exp[c].rows) || cf.rows.len() < lo || cf.rows.len() > hi {
                        add(
                            "C11",
                            "inspect-not-a-consistent-prefix",
                            format!("chain {c}: {} rows, records in [{lo},{hi}]", cf.rows.len()),
                        );
                    }
                }
                class_bits.push(format!(
                    "i={:?}",
                    fin.chains.iter().map(|c| c.rows.len()).collect::<Vec<_>>()
                ));
            }
            _ => {}
        }
    }

    // ---- terminal result ----
    let fault_fired_before_terminal = ev[..obs.log_len_at_terminal_call.min(ev.len())]
        .iter()
        .any(|e| matches!(e, Event::FaultFired(_)));
    let all_recorded_at_terminal = (0..scn.chains)
        .all(|c| records_before(ev, obs.log_len_at_terminal_call, c) == exp[c].rows.len());
    let check_final_rows = |fin: &RecFinal, must_be_complete: bool, v: &mut Vec<(String, String)>, prop: &str| {
        let mut seen = vec![false; scn.chains];
        for cf in &fin.chains {
            if cf.chain >= scn.chains || seen[cf.chain] {
                v.push((
                    format!("{prop}/final-trace-chain-ids/{}", scn.name),
                    format!("chain {}", cf.chain),
                ));
                continue;
            }
            seen[cf.chain] = true;
            let logged: &[String] = log.rows.get(&cf.chain).map(|r| r.as_slice()).unwrap_or(&[]);
            if cf.rows.as_slice() != logged {
                v.push((
                    format!("{prop}/final-trace-differs-from-recorded/{}", scn.name),
                    format!("chain {}: {}", cf.chain, first_diff(&cf.rows, logged)),
                ));
            }
            if !is_prefix(&cf.rows, &exp[cf.chain].rows) {
                v.push((
                    format!("{prop}/final-trace-not-a-prefix/{}", scn.name),
                    format!("chain {}: {}", cf.chain, first_diff(&cf.rows, &exp[cf.chain].rows)),
                ));
            }
            if must_be_complete && cf.rows.len() != exp[cf.chain].rows.len() {
                v.push((
                    format!("{prop}/final-trace-incomplete/{}", scn.name),
                    format!(
                        "chain {}: {} of {} rows",
                        cf.chain,
                        cf.rows.len(),
                        exp[cf.chain].rows.len()
                    ),
                ));
            }
        }
        if must_be_complete && seen.iter().any(|s| !s) {
            v.push((
                format!("{prop}/final-trace-missing-chain/{}", scn.name),
                format!("{seen:?}"),
            ));
        }
    };

    let mut fatal = scn.plan.has_fatal();
    // a density fault placed beyond the chain's last evaluation never happens
    let fired_any = ev.iter().any(|e| matches!(e, Event::FaultFired(_)));
    if fatal
        && !fired_any
        && scn.plan.math_fails.is_none()
        && scn.plan.init_position_fails.is_none()
        && scn.plan.storage.is_empty()
        && matches!(obs.fin, Final::Trace(_) | Final::AbortOk(..))
        && all_recorded_at_end(scn, exp, log)
    {
        fatal = false;
    }
    // an unrecoverable density error that fired during an initialisation attempt and was followed
    // by a further attempt of the same chain was swallowed by the retry loop
    let mut init_retry_swallowed = false;
    for (i, e) in ev.iter().enumerate() {
        if let Event::FaultFired(s) = e {
            if s.contains("Unrecoverable") {
                if let Some(c) = s.split("chain=").nth(1).and_then(|r| r.split(' ').next()).and_then(|c| c.parse::<usize>().ok()) {
                    if ev[i + 1..].iter().any(|e| matches!(e, Event::InitAttempt { chain } if *chain == c)) {
                        init_retry_swallowed = true;
                    }
                }
            }
        }
    }
    if init_retry_swallowed {
        v.push((
            format!("C13/unrecoverable-error-during-initialisation-retried/{}", scn.name),
            "an unrecoverable density error during set_position was treated like a bad initial point: the chain drew a new initial position and carried on".into(),
        ));
        // judged here; the run then legitimately continues as if healthy
        fatal = scn.plan.math_fails.is_some() || scn.plan.init_position_fails.is_some() || !scn.plan.storage.is_empty();
    }
    let prop_t = if flags.c13 {
        "C13"
    } else if flags.c12 {
        "C12"
    } else if flags.c10 {
        "C10"
    } else {
        "C11"
    };
    let mentions_fault = |m: &str| {
        m.contains("INJECTED")
            || m.contains("All initialization points failed")
            || m.contains("Unrecoverable(")
            || m.contains("Recoverable(")
    };
    match &obs.fin {
        Final::NotReached => {
            if engine_failure.is_none() && obs.body_completed {
                v.push((format!("{prop_t}/no-final-result/{}", scn.name), String::new()));
            }
        }
        Final::NewFailed(m) => {
            if !fatal {
                v.push((format!("{prop_t}/sampler-new-failed/{}", scn.name), trunc(m)));
            }
        }
        Final::Trace(fin) => {
            if fatal {
                v.push((
                    format!("C13/reported-success-despite-fault/{}", scn.name),
                    "wait_timeout returned Trace".into(),
                ));
            } else {
                check_final_rows(fin, true, &mut v, prop_t);
            }
        }
        Final::Timeout => {
            // the timed wait only times out when nothing else can run
            let legit = obs.paused_at_terminal;
            if !legit {
                v.push((
                    format!("{prop_t}/hang-wait-timed-out-while-nothing-can-run/{}", scn.name),
                    format!("all rows recorded: {all_recorded_at_terminal}"),
                ));
            }
        }
        Final::WaitErr(m, _) => {
            if !fatal {
                v.push((format!("{prop_t}/unexpected-error/{}", scn.name), trunc(m)));
            } else if !mentions_fault(m) {
                v.push((
                    format!("C13/error-does-not-mention-fault/{}", scn.name),
                    trunc(m),
                ));
            }
        }
        Final::AbortOk(e, fin) => {
            if fatal && fault_fired_before_terminal && e.is_none() {
                v.push((
                    format!("C13/abort-reported-success-despite-earlier-fault/{}", scn.name),
                    "abort returned Ok((None, trace)) although the fault had fired before abort was called".into(),
                ));
            }
            if !fatal {
                if let Some(e) = e {
                    v.push((format!("{prop_t}/unexpected-error/{}", scn.name), trunc(e)));
                }
                check_final_rows(fin, false, &mut v, prop_t);
            }
        }
        Final::AbortErr(m) => {
            if !fatal {
                v.push((format!("{prop_t}/unexpected-error/{}", scn.name), trunc(m)));
            } else if !mentions_fault(m) {
                v.push((
                    format!("C13/error-does-not-mention-fault/{}", scn.name),
                    trunc(m),
                ));
            }
        }
        Final::Panic(_) => {}
    }

    // recoverable-only plans: every chain completes
    if flags.c13 && !fatal && !healthy {
        if let Final::Trace(_) = &obs.fin {
        } else if scn.terminal == Terminal::WaitLong && !obs.paused_at_terminal {
            v.push((
                format!("C13/recoverable-error-terminated-run/{}", scn.name),
                format!("{:?}", short_final(&obs.fin)),
            ));
        }
    }

    // ---- C12: pause windows ----
    if flags.c12 {
        for (wi, (open, _close, commands)) in obs.windows.iter().enumerate() {
            // the window lasts until resume is called again (or the terminal call starts)
            let mut end = ev.len();
            for (i, e) in ev.iter().enumerate().skip(*open) {
                if let Event::OpStart(k) = e {
                    let is_resume = *k != usize::MAX
                        && scn.script.get(*k).map(|o| *o == Op::Resume).unwrap_or(false);
                    if is_resume || *k == usize::MAX {
                        end = i;
                        break;
                    }
                }
            }
            for c in 0..scn.chains {
                let n = records_before(ev, end, c) - records_before(ev, *open, c);
                let bound = (*commands).max(1);
                if n > bound {
                    v.push((
                        format!("C12/chain-kept-drawing-while-paused/{}", scn.name),
                        format!("window {wi}: chain {c} recorded {n} draws after pause() returned (bound {bound})"),
                    ));
                }
                let started_before = ev[..*open]
                    .iter()
                    .any(|e| matches!(e, Event::ChainStarted { chain } if *chain == c));
                // a chain that was still setting itself up (model construction, initial point)
                // when pause() returned has not started drawing either
                let evals_at_open = ev[*open..]
                    .iter()
                    .find_map(|e| if let Event::EvalSnapshot(s) = e { Some(s.iter().find(|(k, _)| *k == c).map(|(_, v)| *v).unwrap_or(0)) } else { None })
                    .unwrap_or(u64::MAX);
                let in_setup = started_before && evals_at_open < exp[c].setup_evals;
                if in_setup && n > bound - 1 {
                    v.push((
                        format!("C12/chain-in-setup-started-drawing-while-paused/{}", scn.name),
                        format!("window {wi}: chain {c} had made {evals_at_open} of its {} set-up evaluations when pause() returned and recorded {n} draws while paused", exp[c].setup_evals),
                    ));
                }
                // an unstarted chain consumes one queued command before its first draw
                if !started_before && n > bound - 1 {
                    v.push((
                        format!("C12/unstarted-chain-drew-while-paused/{}", scn.name),
                        format!("window {wi}: chain {c} recorded {n} draws"),
                    ));
                }
            }
        }
    }

    // ---- observation class ----
    let order: Vec<String> = ev
        .iter()
        .filter_map(|e| match e {
            Event::Record { chain, n } => Some(format!("{chain}.{n}")),
            Event::ChainFinalize { chain } => Some(format!("F{chain}")),
            _ => None,
        })
        .collect();
    let class = format!(
        "{}|{}|{}|{}",
        scn.name,
        order.join(","),
        class_bits.join(","),
        short_final(&obs.fin)
    );
    Verdict {
        violations: v,
        class,
    }
}

fn all_recorded_at_end(scn: &Scenario, exp: &[Expected], log: &ExecLog) -> bool {
    scn.terminal == Terminal::WaitLong
        && (0..scn.chains).all(|c| {
            log.rows.get(&c).map(|r| r.len()).unwrap_or(0) == exp[c].rows.len()
        })
}

pub fn short_final(f: &Final) -> String {
    match f {
        Final::NotReached => "not-reached".into(),
        Final::NewFailed(_) => "new-failed".into(),
        Final::Trace(t) => format!(
            "trace{:?}",
            t.chains.iter().map(|c| c.rows.len()).collect::<Vec<_>>()
        ),
        Final::Timeout => "timeout".into(),
        Final::WaitErr(..) => "wait-err".into(),
        Final::AbortOk(e, t) => format!(
            "abort-ok({}){:?}",
            if e.is_some() { "err" } else { "none" },
            t.chains.iter().map(|c| c.rows.len()).collect::<Vec<_>>()
        ),
        Final::AbortErr(_) => "abort-err".into(),
        Final::Panic(_) => "panic".into(),
    }
}
