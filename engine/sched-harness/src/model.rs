//! Harness model, fault plan, recording storage backend and the per-execution event log.
//!
//! Everything here is deterministic: a chain's behaviour is a function of (seed, chain id, fault
//! plan). The log lives in a thread-local because one exploration runs on one OS thread (shuttle
//! tasks are coroutines on it); no scheduling points are added by the harness' own bookkeeping.

use std::cell::RefCell;
use std::collections::{BTreeMap, HashMap};

use anyhow::{anyhow, Result};
use nuts_rs::verif::{ChainStorage, StorageConfig, TraceStorage};
use nuts_rs::{
    CpuLogpFunc, CpuMath, CpuMathError, HasDims, LogpError, Math, Model, Progress, Settings, Value,
};
use rand::rngs::ChaCha8Rng;
use rand::{Rng, RngExt, SeedableRng};

pub const DIM: usize = 2;

// ---------------------------------------------------------------------------------------------
// fault plan
// ---------------------------------------------------------------------------------------------

#[derive(Clone, Copy, Debug, PartialEq, Eq)]
pub enum DensKind {
    Unrecoverable,
    Recoverable,
}

#[derive(Clone, Copy, Debug, PartialEq, Eq)]
pub enum StorageOp {
    /// the n-th record_sample call of the chain (0-based)
    Record(u64),
    Finalize,
    Flush,
    Inspect,
    InitChain,
    NewTrace,
}

#[derive(Clone, Debug, Default)]
pub struct FaultPlan {
    /// `Model::math` fails for: 0 = the controller's call, k+1 = chain k
    pub math_fails: Option<usize>,
    /// `Model::init_position` fails for chain k
    pub init_position_fails: Option<usize>,
    /// (chain, evaluation index (None = every evaluation), kind)
    pub dens: Vec<(usize, Option<u64>, DensKind)>,
    /// (chain, operation)
    pub storage: Vec<(usize, StorageOp)>,
    /// not a fault: writing a row takes time (a scheduling point inside `record_sample`, i.e.
    /// while the chain holds its trace lock)
    pub slow_store: bool,
}

impl FaultPlan {
    pub fn is_empty(&self) -> bool {
        self.math_fails.is_none()
            && self.init_position_fails.is_none()
            && self.dens.is_empty()
            && self.storage.is_empty()
    }
    pub fn describe(&self) -> String {
        format!("{self:?}")
    }
    /// does the plan contain a fault that must surface as an error of the sampler?
    pub fn has_fatal(&self) -> bool {
        self.math_fails.is_some()
            || self.init_position_fails.is_some()
            || self
                .dens
                .iter()
                .any(|(_, at, k)| *k == DensKind::Unrecoverable || at.is_none())
            || self
                .storage
                .iter()
                .any(|(_, op)| !matches!(op, StorageOp::Inspect))
    }
}

// ---------------------------------------------------------------------------------------------
// per-execution log
// ---------------------------------------------------------------------------------------------

#[derive(Clone, Debug, PartialEq)]
pub enum Event {
    Record { chain: usize, n: usize },
    ChainFinalize { chain: usize },
    ChainFlush { chain: usize },
    ChainInspect { chain: usize },
    TraceFinalize,
    TraceInspect,
    /// user-thread markers
    OpStart(usize),
    OpEnd(usize),
    WindowOpen,
    /// density evaluations per chain at the moment a pause window opens
    EvalSnapshot(Vec<(usize, u64)>),
    WindowClose,
    FaultFired(String),
    /// the chain's job began (it asked the model for its math)
    ChainStarted { chain: usize },
    /// the chain asked the model for an(other) initial position
    InitAttempt { chain: usize },
    /// the progress callback ran: sampling time it was given, virtual time, number of chains
    Callback { elapsed_ns: u64, now_ns: u64, chains: usize },
}

#[derive(Default)]
pub struct ExecLog {
    pub events: Vec<Event>,
    /// canonical rows per chain as recorded
    pub rows: BTreeMap<usize, Vec<String>>,
    pub who_by_task: HashMap<usize, usize>,
    /// density evaluations made so far, per chain
    pub chain_evals: BTreeMap<usize, u64>,
}

thread_local! {
    pub static LOG: RefCell<ExecLog> = RefCell::new(ExecLog::default());
    /// density evaluations of chains since the last reset (used to size fault sweeps)
    pub static EVALS: std::cell::Cell<u64> = const { std::cell::Cell::new(0) };
    /// density evaluations the last sequential reference needed until set_position succeeded
    pub static LAST_SETUP_EVALS: std::cell::Cell<u64> = const { std::cell::Cell::new(0) };
}

pub fn log_reset() {
    LOG.with(|l| *l.borrow_mut() = ExecLog::default());
}
pub fn log_event(e: Event) {
    LOG.with(|l| l.borrow_mut().events.push(e));
}
pub fn log_len() -> usize {
    LOG.with(|l| l.borrow().events.len())
}

thread_local! {
    /// true while the sequential reference runs (outside any shuttle execution)
    static OUTSIDE_SHUTTLE: std::cell::Cell<bool> = const { std::cell::Cell::new(false) };
    /// who calls `Model::math` while a reference runs outside the scheduler (0 controller, k+1 chain k)
    static REF_WHO: std::cell::Cell<usize> = const { std::cell::Cell::new(0) };
}

fn task_key() -> usize {
    if OUTSIDE_SHUTTLE.with(|c| c.get()) {
        return usize::MAX;
    }
    shuttle::current::get_current_task()
        .map(|t| t.into())
        .unwrap_or(usize::MAX)
}

// ---------------------------------------------------------------------------------------------
// density
// ---------------------------------------------------------------------------------------------

#[derive(Debug, Clone)]
pub enum HErr {
    Recoverable(usize, u64),
    Unrecoverable(usize, u64),
}
impl std::fmt::Display for HErr {
    fn fmt(&self, f: &mut std::fmt::Formatter<'_>) -> std::fmt::Result {
        match self {
            HErr::Recoverable(c, k) => {
                write!(f, "INJECTED recoverable density error chain={c} eval={k}")
            }
            HErr::Unrecoverable(c, k) => {
                write!(f, "INJECTED unrecoverable density error chain={c} eval={k}")
            }
        }
    }
}
impl std::error::Error for HErr {}
impl LogpError for HErr {
    fn is_recoverable(&self) -> bool {
        matches!(self, HErr::Recoverable(..))
    }
}

pub struct HDens<'m> {
    /// 0 = controller's math, k+1 = chain k
    pub who: usize,
    pub plan: &'m FaultPlan,
    pub n_eval: u64,
    /// mean of the first coordinate, drawn from the generator `Model::math` was given
    pub shift: f64,
}

impl HasDims for HDens<'_> {
    fn dim_sizes(&self) -> HashMap<String, u64> {
        HashMap::from([
            ("unconstrained_parameter".to_string(), DIM as u64),
            ("dim".to_string(), DIM as u64),
        ])
    }
}

impl CpuLogpFunc for HDens<'_> {
    type LogpError = HErr;
    type FlowParameters = ();
    type ExpandedVector = Vec<f64>;

    fn dim(&self) -> usize {
        DIM
    }

    fn logp(&mut self, position: &[f64], gradient: &mut [f64]) -> Result<f64, HErr> {
        let k = self.n_eval;
        self.n_eval += 1;
        EVALS.with(|e| e.set(e.get() + 1));
        if self.who > 0 {
            let chain = self.who - 1;
            LOG.with(|l| *l.borrow_mut().chain_evals.entry(chain).or_insert(0) += 1);
            for (c, at, kind) in &self.plan.dens {
                if *c == chain && (at.is_none() || *at == Some(k)) {
                    if at.is_some() || k < 3 {
                        log_event(Event::FaultFired(format!("dens chain={chain} eval={k} {kind:?}")));
                    }
                    return Err(match kind {
                        DensKind::Recoverable => HErr::Recoverable(chain, k),
                        DensKind::Unrecoverable => HErr::Unrecoverable(chain, k),
                    });
                }
            }
        }
        // independent normal, sd (1, 2)
        let sd = [1.0, 2.0];
        let mut lp = 0.0;
        for i in 0..DIM {
            let z = (position[i] - if i == 0 { self.shift } else { 0.0 }) / sd[i];
            lp -= 0.5 * z * z;
            gradient[i] = -z / sd[i];
        }
        Ok(lp)
    }

    fn expand_vector<R: rand::Rng + ?Sized>(
        &mut self,
        _rng: &mut R,
        array: &[f64],
    ) -> Result<Vec<f64>, CpuMathError> {
        Ok(array.to_vec())
    }
}

// ---------------------------------------------------------------------------------------------
// model
// ---------------------------------------------------------------------------------------------

pub struct HModel {
    pub seed: u64,
    pub plan: FaultPlan,
    n_chains: usize,
}

impl HModel {
    pub fn new(seed: u64, n_chains: usize, plan: FaultPlan) -> HModel {
        HModel { seed, plan, n_chains }
    }
}

impl Model for HModel {
    type Math<'model> = CpuMath<HDens<'model>>;

    fn math<R: Rng + ?Sized>(&self, rng: &mut R) -> Result<Self::Math<'_>> {
        // the caller is identified by the pool job it runs in (the sampler submits the chains in
        // order: job k is chain k; outside a pool job it is the controller) - not by anything it
        // passes in. The density DEPENDS on the generator it is given (the target's mean is drawn
        // from it), so a chain that hands `Model::math` another stream samples another target.
        let tag = rng.next_u64();
        let who = if OUTSIDE_SHUTTLE.with(|c| c.get()) {
            REF_WHO.with(|c| c.get())
        } else {
            match sched_facade::current_job_index() {
                Some(k) => k + 1,
                None => 0,
            }
        };
        LOG.with(|l| l.borrow_mut().who_by_task.insert(task_key(), who));
        if who > self.n_chains {
            return Err(anyhow!("HARNESS: Model::math called from pool job {} but the run has {} chains", who - 1, self.n_chains));
        }
        let shift = (tag >> 11) as f64 / (1u64 << 53) as f64 - 0.5;
        if who > 0 {
            log_event(Event::ChainStarted { chain: who - 1 });
        }
        if self.plan.math_fails == Some(who) {
            log_event(Event::FaultFired(format!("math who={who}")));
            return Err(anyhow!("INJECTED model construction failure who={who}"));
        }
        Ok(CpuMath::new(HDens {
            who,
            plan: &self.plan,
            n_eval: 0,
            shift,
        }))
    }

    fn init_position<R: Rng + ?Sized>(&self, rng: &mut R, position: &mut [f64]) -> Result<()> {
        let who = LOG.with(|l| l.borrow().who_by_task.get(&task_key()).copied());
        if let Some(w) = who {
            if w > 0 {
                let n = LOG.with(|l| {
                    l.borrow()
                        .events
                        .iter()
                        .filter(|e| matches!(e, Event::InitAttempt { chain } if *chain == w - 1))
                        .count()
                });
                // keep the log small when all 500 attempts fail
                if n < 3 {
                    log_event(Event::InitAttempt { chain: w - 1 });
                }
            }
            if w > 0 && self.plan.init_position_fails == Some(w - 1) {
                log_event(Event::FaultFired(format!("init_position chain={}", w - 1)));
                return Err(anyhow!("INJECTED init_position failure chain={}", w - 1));
            }
        }
        for p in position.iter_mut() {
            let u: f64 = rng.random();
            *p = u * 2.0 - 1.0;
        }
        Ok(())
    }
}

// ---------------------------------------------------------------------------------------------
// canonical rows
// ---------------------------------------------------------------------------------------------

pub fn canonical_row(
    stats: &[(&str, Option<Value>)],
    draws: &[(&str, Option<Value>)],
    info: &Progress,
) -> String {
    // f64 Debug output is the shortest representation that round-trips: equal strings <=> equal
    // bits (up to NaN payloads)
    format!(
        "info(draw={},chain={},div={},tune={},step={:?},nsteps={}) stats{:?} draws{:?}",
        info.draw, info.chain, info.diverging, info.tuning, info.step_size, info.num_steps, stats, draws
    )
}

/// (diverging && !tuning, num_steps) extracted from a canonical row, for the progress oracle
pub fn row_progress_fields(row: &str) -> (bool, bool, u64) {
    let get = |key: &str| -> &str {
        let i = row.find(key).unwrap() + key.len();
        let rest = &row[i..];
        let end = rest.find(|c| c == ',' || c == ')').unwrap();
        &rest[..end]
    };
    (
        get("div=") == "true",
        get("tune=") == "true",
        get("nsteps=").parse().unwrap(),
    )
}

// ---------------------------------------------------------------------------------------------
// recording storage backend
// ---------------------------------------------------------------------------------------------

pub struct RecConfig {
    pub plan: FaultPlan,
}

pub struct RecTrace {
    plan: FaultPlan,
}

pub struct RecChain {
    chain: usize,
    rows: Vec<String>,
    n_records: u64,
    plan: FaultPlan,
}

#[derive(Clone, Debug)]
pub struct ChainFinal {
    pub chain: usize,
    pub rows: Vec<String>,
}

#[derive(Clone, Debug, Default)]
pub struct RecFinal {
    pub chains: Vec<ChainFinal>,
}

fn storage_fault(plan: &FaultPlan, chain: usize, op: StorageOp) -> Result<()> {
    if plan.storage.iter().any(|(c, o)| *c == chain && *o == op) {
        log_event(Event::FaultFired(format!("storage chain={chain} {op:?}")));
        Err(anyhow!("INJECTED storage failure chain={chain} op={op:?}"))
    } else {
        Ok(())
    }
}

impl StorageConfig for RecConfig {
    type Storage = RecTrace;
    fn new_trace<M: Math>(self, _settings: &impl Settings, _math: &M) -> Result<RecTrace> {
        storage_fault(&self.plan, 0, StorageOp::NewTrace)?;
        Ok(RecTrace { plan: self.plan })
    }
}

impl TraceStorage for RecTrace {
    type ChainStorage = RecChain;
    type Finalized = RecFinal;

    fn initialize_trace_for_chain(&self, chain_id: u64) -> Result<RecChain> {
        storage_fault(&self.plan, chain_id as usize, StorageOp::InitChain)?;
        Ok(RecChain {
            chain: chain_id as usize,
            rows: vec![],
            n_records: 0,
            plan: self.plan.clone(),
        })
    }

    fn finalize(
        self,
        traces: Vec<Result<ChainFinal>>,
    ) -> Result<(Option<anyhow::Error>, RecFinal)> {
        log_event(Event::TraceFinalize);
        let mut first = None;
        let mut out = RecFinal::default();
        for t in traces {
            match t {
                Ok(c) => out.chains.push(c),
                Err(e) => {
                    if first.is_none() {
                        first = Some(e)
                    }
                }
            }
        }
        Ok((first, out))
    }

    fn inspect(
        &self,
        traces: Vec<Result<Option<ChainFinal>>>,
    ) -> Result<(Option<anyhow::Error>, RecFinal)> {
        log_event(Event::TraceInspect);
        let mut first = None;
        let mut out = RecFinal::default();
        for t in traces {
            match t {
                Ok(Some(c)) => out.chains.push(c),
                Ok(None) => {}
                Err(e) => {
                    if first.is_none() {
                        first = Some(e)
                    }
                }
            }
        }
        Ok((first, out))
    }
}

impl ChainStorage for RecChain {
    type Finalized = ChainFinal;

    fn record_sample(
        &mut self,
        _settings: &impl Settings,
        stats: Vec<(&str, Option<Value>)>,
        draws: Vec<(&str, Option<Value>)>,
        info: &Progress,
    ) -> Result<()> {
        let n = self.n_records;
        self.n_records += 1;
        if self.plan.slow_store && !OUTSIDE_SHUTTLE.with(|c| c.get()) {
            shuttle::thread::yield_now();
        }
        storage_fault(&self.plan, self.chain, StorageOp::Record(n))?;
        let row = canonical_row(&stats, &draws, info);
        self.rows.push(row.clone());
        LOG.with(|l| {
            let mut l = l.borrow_mut();
            let rows = l.rows.entry(self.chain).or_default();
            rows.push(row);
            let n = rows.len() - 1;
            l.events.push(Event::Record {
                chain: self.chain,
                n,
            });
        });
        Ok(())
    }

    fn finalize(self) -> Result<ChainFinal> {
        log_event(Event::ChainFinalize { chain: self.chain });
        storage_fault(&self.plan, self.chain, StorageOp::Finalize)?;
        Ok(ChainFinal {
            chain: self.chain,
            rows: self.rows,
        })
    }

    fn inspect(&self) -> Result<Option<ChainFinal>> {
        log_event(Event::ChainInspect { chain: self.chain });
        storage_fault(&self.plan, self.chain, StorageOp::Inspect)?;
        Ok(Some(ChainFinal {
            chain: self.chain,
            rows: self.rows.clone(),
        }))
    }

    fn flush(&self) -> Result<()> {
        log_event(Event::ChainFlush { chain: self.chain });
        storage_fault(&self.plan, self.chain, StorageOp::Flush)?;
        Ok(())
    }
}

// ---------------------------------------------------------------------------------------------
// sequential reference (what one chain records when it runs alone)
// ---------------------------------------------------------------------------------------------

pub enum RefOutcome {
    /// all rows recorded
    Complete(Vec<String>),
    /// the chain ends with an error after these rows
    Failed(Vec<String>, String),
}

/// Replicates the documented per-chain protocol of the parallel sampler without any concurrency:
/// stream (chain+1) of ChaCha8(seed); the model's math, the chain and every initial position are
/// drawn from that stream; up to 500 initialisation attempts; num_tune + num_draws draws.
pub fn sequential_reference<S: Settings>(
    settings: &S,
    n_chains: usize,
    chain: usize,
    plan: &FaultPlan,
) -> RefOutcome {
    use nuts_rs::Chain;
    use nuts_rs::Storable;
    use nuts_rs::verif::StatsDims;
    // the reference must not disturb the log of a running execution
    let saved = LOG.with(|l| std::mem::take(&mut *l.borrow_mut()));
    let was_outside = OUTSIDE_SHUTTLE.with(|c| c.replace(true));
    let model = HModel::new(settings.seed(), n_chains, plan.clone());
    let evals_at_start = EVALS.with(|e| e.get());
    LAST_SETUP_EVALS.with(|c| c.set(u64::MAX));
    let result = (|| {
        let mut rows = vec![];
        let mut rng = ChaCha8Rng::seed_from_u64(settings.seed());
        rng.set_stream(chain as u64 + 1);
        REF_WHO.with(|c| c.set(chain + 1));
        let logp = match model.math(&mut rng) {
            Ok(m) => m,
            Err(e) => return RefOutcome::Failed(rows, format!("{e:#}")),
        };
        let dim = logp.dim();
        let mut sampler = settings.new_chain(chain as u64, logp, &mut rng);
        let mut initval = vec![0f64; dim];
        let mut error = None;
        for _ in 0..500 {
            if let Err(e) = model.init_position(&mut rng, &mut initval) {
                return RefOutcome::Failed(rows, format!("{e:#}"));
            }
            if let Err(e) = sampler.set_position(&initval) {
                error = Some(e);
                continue;
            }
            error = None;
            break;
        }
        if let Some(e) = error {
            return RefOutcome::Failed(rows, format!("All initialization points failed: {e:#}"));
        }
        LAST_SETUP_EVALS.with(|c| c.set(EVALS.with(|e| e.get()) - evals_at_start));
        let draws = settings.hint_num_tune() + settings.hint_num_draws();
        for _ in 0..draws {
            let (_p, mut draw_data, mut stats, info) = match sampler.expanded_draw() {
                Ok(v) => v,
                Err(e) => return RefOutcome::Failed(rows, format!("{e:#}")),
            };
            let math = sampler.math();
            let dims = StatsDims::from(&*math);
            let row = canonical_row(&stats.get_all(&dims), &draw_data.get_all(&*math), &info);
            rows.push(row);
        }
        RefOutcome::Complete(rows)
    })();
    LOG.with(|l| *l.borrow_mut() = saved);
    OUTSIDE_SHUTTLE.with(|c| c.set(was_outside));
    result
}


/// The random stream of a chain comes from the RNG handed to `Settings::new_chain` (the sampler
/// gives every chain its own ChaCha8 stream): three chains built through the public constructor
/// with streams (1, 2, 1) from the SAME start point - the first two must differ, the first and
/// the third must agree bit for bit.
pub fn stream_check<S: Settings>(settings: &S) -> Option<String> {
    use nuts_rs::Chain;
    use nuts_rs::Storable;
    use nuts_rs::verif::StatsDims;
    let saved = LOG.with(|l| std::mem::take(&mut *l.borrow_mut()));
    let was_outside = OUTSIDE_SHUTTLE.with(|c| c.replace(true));
    let model = HModel::new(settings.seed(), 2, FaultPlan::default());
    let run = |stream: u64| -> Result<Vec<String>, String> {
        // the same density for all three (the model's mean comes from the generator it is given)
        let mut mrng = ChaCha8Rng::seed_from_u64(settings.seed());
        mrng.set_stream(1);
        REF_WHO.with(|c| c.set(1));
        let logp = model.math(&mut mrng).map_err(|e| format!("{e:#}"))?;
        let mut rng = ChaCha8Rng::seed_from_u64(settings.seed());
        rng.set_stream(stream);
        let dim = logp.dim();
        let mut sampler = settings.new_chain(0, logp, &mut rng);
        let start: Vec<f64> = (0..dim).map(|i| 0.3 - 0.7 * i as f64).collect();
        sampler.set_position(&start).map_err(|e| format!("{e:#}"))?;
        let mut rows = vec![];
        for _ in 0..4 {
            let (_p, mut draw_data, mut stats, info) = sampler.expanded_draw().map_err(|e| format!("{e:#}"))?;
            let math = sampler.math();
            let dims = StatsDims::from(&*math);
            rows.push(format!("{:?}", canonical_row(&stats.get_all(&dims), &draw_data.get_all(&*math), &info)));
        }
        Ok(rows)
    };
    let res = (|| {
        let a = run(1)?;
        let b = run(2)?;
        let c = run(1)?;
        if a != c {
            return Err("two chains built with the same RNG stream from the same start differ".to_string());
        }
        if a == b {
            return Err("chains built with different RNG streams (same seed, same start point) produce bit-identical draws: the chain ignores the RNG it is given".to_string());
        }
        Ok(())
    })();
    LOG.with(|l| *l.borrow_mut() = saved);
    OUTSIDE_SHUTTLE.with(|c| c.set(was_outside));
    res.err()
}
