//! Iterative preemption-bounded depth-first scheduler (CHESS-style) for shuttle.
//!
//! At a scheduling point where the running task is still enabled, continuing costs 0 and switching
//! to another task costs one preemption; where it is blocked, finished or has yielded, every
//! enabled task is a free alternative. A yielding task (the facade's timed wait) is never
//! re-scheduled while another task is runnable (fair yield); when it is the only runnable task the
//! facade is told so (quiescence => the timed wait times out).
//!
//! The search is stateless: every execution replays a recorded prefix and then takes the default
//! (cost-0, lowest-id) option; alternatives are explored by backtracking over the recorded path.
//! If the set of options met while replaying a prefix differs from the recorded one, the run stops
//! with a machinery error (uncontrolled nondeterminism), never with a verdict.

use std::sync::{Arc, Mutex};

use shuttle::scheduler::{Schedule, Scheduler, Task, TaskId};

#[derive(Clone, Debug)]
pub struct Node {
    /// (task id, cost) in canonical order
    pub options: Vec<(usize, u8)>,
    pub chosen: usize,
    pub pre_before: u32,
}

#[derive(Default, Debug, Clone)]
pub struct DfsStats {
    pub executions: u64,
    pub states: u64,
    pub transitions: u64,
    pub max_depth: usize,
    pub pruned_by_bound: u64,
}

pub struct DfsState {
    pub stack: Vec<Node>,
    pub pos: usize,
    pub replay_len: usize,
    pub cur_pre: u32,
    pub bound: u32,
    pub started: bool,
    pub exhausted: bool,
    pub stats: DfsStats,
    pub nondeterminism: Option<String>,
    /// replay mode: run exactly one execution following `stack`
    pub replay_only: bool,
    pub max_executions: u64,
    pub cap_hit: bool,
    /// polling waiters that have polled since the last non-waiting task ran (see next_task)
    pub idle: std::collections::BTreeSet<usize>,
    /// wall-clock end of the whole check: exploration of a scenario stops at the next execution
    /// boundary after it (reported as a cap, never as a verdict)
    pub deadline: Option<std::time::Instant>,
    pub deadline_hit: bool,
    /// executions of this scenario that violated an oracle so far (counted by the driver); the
    /// scenario is abandoned once `max_violating` of them have been seen - it is refuted already
    pub violating: std::sync::Arc<std::sync::atomic::AtomicU64>,
    pub max_violating: u64,
    pub stopped_after_violations: bool,
    /// called between executions (and by the driver after the last one)
    pub on_execution_end: Option<Box<dyn FnMut(&[usize]) + Send>>,
    pub in_execution: bool,
    /// replay mode: `stack` holds only the task ids to follow (options are filled in as met)
    pub replay_tasks: bool,
}

impl DfsState {
    pub fn new(bound: u32, max_executions: u64) -> DfsState {
        DfsState {
            stack: Vec::new(),
            pos: 0,
            replay_len: 0,
            cur_pre: 0,
            bound,
            started: false,
            exhausted: false,
            stats: DfsStats::default(),
            nondeterminism: None,
            replay_only: false,
            max_executions,
            cap_hit: false,
            idle: std::collections::BTreeSet::new(),
            deadline: None,
            deadline_hit: false,
            violating: std::sync::Arc::new(std::sync::atomic::AtomicU64::new(0)),
            max_violating: u64::MAX,
            stopped_after_violations: false,
            on_execution_end: None,
            in_execution: false,
            replay_tasks: false,
        }
    }

    pub fn current_schedule(&self) -> Vec<usize> {
        self.stack[..self.pos.min(self.stack.len())]
            .iter()
            .map(|n| n.options[n.chosen].0)
            .collect()
    }

    /// finish bookkeeping of the execution that just ended (idempotent)
    pub fn end_execution(&mut self) {
        if !self.in_execution {
            return;
        }
        self.in_execution = false;
        // drop recorded nodes beyond the point the execution reached (can happen after a failure)
        self.stack.truncate(self.pos);
        self.stats.executions += 1;
        self.stats.max_depth = self.stats.max_depth.max(self.pos);
        let sched = self.current_schedule();
        if let Some(cb) = self.on_execution_end.as_mut() {
            cb(&sched);
        }
    }

    /// move to the next unexplored alternative; false when the space is exhausted
    fn backtrack(&mut self) -> bool {
        while let Some(node) = self.stack.last_mut() {
            let mut next = node.chosen + 1;
            let mut found = false;
            while next < node.options.len() {
                if node.pre_before + node.options[next].1 as u32 <= self.bound {
                    found = true;
                    break;
                } else {
                    self.stats.pruned_by_bound += 1;
                }
                next += 1;
            }
            if found {
                node.chosen = next;
                return true;
            }
            self.stack.pop();
        }
        false
    }
}

#[derive(Clone)]
pub struct DfsScheduler {
    pub state: Arc<Mutex<DfsState>>,
}

impl DfsScheduler {
    pub fn new(state: Arc<Mutex<DfsState>>) -> Self {
        DfsScheduler { state }
    }
}

impl Scheduler for DfsScheduler {
    fn new_execution(&mut self) -> Option<Schedule> {
        let mut s = self.state.lock().unwrap();
        s.end_execution();
        if s.nondeterminism.is_some() || s.exhausted {
            return None;
        }
        if !s.started {
            s.started = true;
            s.replay_len = s.stack.len(); // non-empty only in replay mode
        } else {
            if s.replay_only {
                s.exhausted = true;
                return None;
            }
            if s.stats.executions >= s.max_executions {
                s.cap_hit = true;
                s.exhausted = true;
                return None;
            }
            if s.violating.load(std::sync::atomic::Ordering::Relaxed) >= s.max_violating {
                s.stopped_after_violations = true;
                s.exhausted = true;
                return None;
            }
            if s.deadline.map(|d| std::time::Instant::now() > d).unwrap_or(false) {
                s.deadline_hit = true;
                s.exhausted = true;
                return None;
            }
            if !s.backtrack() {
                s.exhausted = true;
                return None;
            }
            s.replay_len = s.stack.len();
        }
        s.pos = 0;
        s.cur_pre = 0;
        s.idle.clear();
        s.in_execution = true;
        Some(Schedule::new(0))
    }

    fn next_task(
        &mut self,
        runnable_tasks: &[&Task],
        current_task: Option<TaskId>,
        is_yielding: bool,
    ) -> Option<TaskId> {
        let mut s = self.state.lock().unwrap();
        let cur: Option<usize> = current_task.map(|t| t.into());
        let mut ids: Vec<usize> = runnable_tasks.iter().map(|t| t.id().into()).collect();
        ids.sort_unstable();
        let cur_enabled = cur.map(|c| ids.contains(&c)).unwrap_or(false);
        let mut options: Vec<(usize, u8)> = Vec::with_capacity(ids.len());
        // fairness among polling waiters (timed receives, the harness' sleep): a waiter that has
        // polled since the last time a non-waiting task ran is idle - running it again changes
        // nothing - so it is not offered while something else can run (Musuvathi/Qadeer fair
        // scheduling restricted to yields); without this two waiters can alternate for ever
        let is_poller = |i: usize| sched_facade::POLLERS.with(|p| p.borrow().contains_key(&i));
        if let Some(c) = cur {
            if !is_poller(c) {
                s.idle.clear();
            }
        }
        if is_yielding && cur_enabled {
            let c = cur.unwrap();
            if is_poller(c) {
                s.idle.insert(c);
            }
            let fresh: Vec<usize> = ids.iter().copied().filter(|i| *i != c && !s.idle.contains(i)).collect();
            if ids.len() == 1 {
                sched_facade::QUIESCENT_AT_LAST_YIELD.with(|c| c.set(true));
                options.push((ids[0], 0));
            } else if !fresh.is_empty() {
                sched_facade::QUIESCENT_AT_LAST_YIELD.with(|c| c.set(false));
                for i in fresh {
                    options.push((i, 0));
                }
            } else if let Some(next) = sched_facade::time_passes(&ids) {
                // every runnable task is waiting for time to pass: the wait that ends first does
                sched_facade::QUIESCENT_AT_LAST_YIELD.with(|c| c.set(Some(next) == cur));
                options.push((next, 0));
            } else {
                sched_facade::QUIESCENT_AT_LAST_YIELD.with(|c| c.set(false));
                for &i in &ids {
                    if Some(i) != cur {
                        options.push((i, 0));
                    }
                }
            }
        } else if cur_enabled {
            options.push((cur.unwrap(), 0));
            for &i in &ids {
                if Some(i) != cur {
                    options.push((i, 1));
                }
            }
        } else {
            for &i in &ids {
                options.push((i, 0));
            }
        }

        let pos = s.pos;
        let chosen_task;
        if pos < s.replay_len && s.replay_tasks {
            let want = s.stack[pos].options[0].0;
            match options.iter().position(|o| o.0 == want) {
                Some(idx) => {
                    let c = options[idx].1;
                    let pre_before = s.cur_pre;
                    s.stack[pos] = Node {
                        options: options.clone(),
                        chosen: idx,
                        pre_before,
                    };
                    chosen_task = want;
                    s.cur_pre = pre_before + c as u32;
                    s.stats.states += 1;
                    s.stats.transitions += 1;
                }
                None => {
                    s.nondeterminism = Some(format!(
                        "replay diverged at step {pos}: recorded task {want} is not among the options {options:?}"
                    ));
                    return None;
                }
            }
        } else if pos < s.replay_len {
            let node = &s.stack[pos];
            if node.options != options {
                if s.replay_only {
                    s.nondeterminism = Some(format!(
                        "replay diverged at step {pos}: recorded options {:?}, met {:?}",
                        node.options, options
                    ));
                } else {
                    s.nondeterminism = Some(format!(
                        "uncontrolled nondeterminism at step {pos}: recorded options {:?}, met {:?}",
                        node.options, options
                    ));
                }
                return None;
            }
            let (t, c) = node.options[node.chosen];
            chosen_task = t;
            s.cur_pre = node.pre_before + c as u32;
            if pos + 1 == s.replay_len {
                s.stats.transitions += 1; // the alternative edge that starts this execution
            }
        } else {
            if s.replay_only {
                // replay file shorter than the execution: continue with defaults
            }
            let pre_before = s.cur_pre;
            let node = Node {
                options: options.clone(),
                chosen: 0,
                pre_before,
            };
            chosen_task = options[0].0;
            s.cur_pre = pre_before + options[0].1 as u32;
            s.stack.push(node);
            s.stats.states += 1;
            s.stats.transitions += 1;
        }
        s.pos += 1;
        Some(TaskId::from(chosen_task))
    }

    fn next_u64(&mut self) -> u64 {
        0
    }
}
