//! sched-facade: what `src/sampler.rs` imports instead of `std::sync` / `std::thread` /
//! `std::time::Instant` / `rayon` when nuts-rs is built with `--cfg nuts_rs_verif_sched`.
//!
//! * `Arc`, `Mutex`, `channel`, `sync_channel`, `Sender`, `SyncSender`: shuttle's (every operation
//!   is a scheduling point of the controlled scheduler).
//! * `Receiver<T>`: shuttle's receiver with a *sound* model of `recv_timeout` (shuttle's own never
//!   times out): see `Receiver::recv_timeout`.
//! * `spawn` / `JoinHandle`: shuttle threads with std's panic semantics (a panicking thread does
//!   not fail the execution; its payload is returned by `join`).
//! * `ThreadPoolBuilder` / `ThreadPool` / `ScopeFifo`: a FIFO pool with rayon's documented
//!   semantics built on shuttle threads.
//! * `Instant`: a virtual clock that only advances when a timed wait times out.

use std::cell::Cell;
use std::collections::VecDeque;
use std::marker::PhantomData;
use std::time::Duration;

pub use shuttle::sync::mpsc::{
    channel as sh_channel, sync_channel as sh_sync_channel, RecvError, RecvTimeoutError, SendError,
    Sender, SyncSender, TryRecvError,
};
pub use shuttle::sync::{Arc, Mutex, MutexGuard};

// ------------------------------------------------------------------------------------------
// scheduler <-> facade side channel (everything runs on one OS thread per exploration)
// ------------------------------------------------------------------------------------------

thread_local! {
    /// set by the scheduler at every scheduling decision: true iff the task that asked to yield
    /// was the only runnable task (nothing else can happen unless time passes)
    pub static QUIESCENT_AT_LAST_YIELD: Cell<bool> = const { Cell::new(false) };
    static CLOCK: Cell<Duration> = const { Cell::new(Duration::ZERO) };
    /// number of timed waits that ended in Timeout in this execution
    pub static TIMEOUTS_TAKEN: Cell<u64> = const { Cell::new(0) };
    /// tasks that are inside a polling wait right now (timed receive / harness sleep): when every
    /// runnable task is one of them only the passage of time can still happen, and the scheduler
    /// decides whose time is up (see `time_passes`)
    pub static POLLERS: std::cell::RefCell<std::collections::BTreeMap<usize, Poller>> = const { std::cell::RefCell::new(std::collections::BTreeMap::new()) };
    /// per task: how many of its timed waits have ended in Timeout
    pub static TIMEOUT_COUNT: std::cell::RefCell<std::collections::BTreeMap<usize, u64>> = const { std::cell::RefCell::new(std::collections::BTreeMap::new()) };
}

#[derive(Clone, Debug)]
pub enum Poller {
    /// timed receive that times out at this virtual time
    Timed { deadline: Duration },
    /// "sleep until nothing else happens": wakes once every timed waiter has had its timeout at
    /// least once since the sleep began (snapshot of TIMEOUT_COUNT at that moment)
    Sleeper { seen: std::collections::BTreeMap<usize, u64> },
}

fn me() -> usize {
    shuttle::current::get_current_task().map(|t| t.into()).unwrap_or(usize::MAX)
}

/// All runnable tasks (`ids`) are pollers: returns the one whose wait ends next.
pub fn time_passes(ids: &[usize]) -> Option<usize> {
    POLLERS.with(|p| {
        let p = p.borrow();
        if ids.is_empty() || !ids.iter().all(|i| p.contains_key(i)) {
            return None;
        }
        let counts = TIMEOUT_COUNT.with(|c| c.borrow().clone());
        let timed: Vec<(Duration, usize)> = {
            let mut v: Vec<(Duration, usize)> = ids.iter().filter_map(|i| match &p[i] { Poller::Timed { deadline } => Some((*deadline, *i)), _ => None }).collect();
            v.sort();
            v
        };
        for i in ids {
            if let Poller::Sleeper { seen } = &p[i] {
                let ready = timed.iter().all(|(_, t)| counts.get(t).copied().unwrap_or(0) > seen.get(t).copied().unwrap_or(0));
                if ready {
                    return Some(*i);
                }
            }
        }
        timed.first().map(|(_, i)| *i).or_else(|| ids.first().copied())
    })
}

/// Harness side: park the calling task until nothing but timed waiters is left and each of them
/// has timed out at least once.
pub fn sleep_until_quiescent() {
    let id = me();
    let seen = TIMEOUT_COUNT.with(|c| c.borrow().clone());
    POLLERS.with(|p| p.borrow_mut().insert(id, Poller::Sleeper { seen }));
    loop {
        QUIESCENT_AT_LAST_YIELD.with(|c| c.set(false));
        shuttle::thread::yield_now();
        if QUIESCENT_AT_LAST_YIELD.with(|c| c.get()) {
            break;
        }
    }
    POLLERS.with(|p| p.borrow_mut().remove(&id));
}

/// Called by the harness at the start of every execution.
pub fn reset_execution_state() {
    CLOCK.with(|c| c.set(Duration::ZERO));
    QUIESCENT_AT_LAST_YIELD.with(|c| c.set(false));
    TIMEOUTS_TAKEN.with(|c| c.set(0));
    POLLERS.with(|p| p.borrow_mut().clear());
    TIMEOUT_COUNT.with(|c| c.borrow_mut().clear());
}

pub fn virtual_now() -> Duration {
    CLOCK.with(|c| c.get())
}

// ------------------------------------------------------------------------------------------
// virtual clock
// ------------------------------------------------------------------------------------------

#[derive(Clone, Copy, Debug, PartialEq, Eq, PartialOrd, Ord)]
pub struct Instant(Duration);

impl Instant {
    pub fn now() -> Instant {
        Instant(virtual_now())
    }
    pub fn elapsed(&self) -> Duration {
        virtual_now().saturating_sub(self.0)
    }
    pub fn duration_since(&self, earlier: Instant) -> Duration {
        self.0.saturating_sub(earlier.0)
    }
}

fn advance_clock(by: Duration) {
    CLOCK.with(|c| c.set(c.get().saturating_add(by)));
}

// ------------------------------------------------------------------------------------------
// channels
// ------------------------------------------------------------------------------------------

pub struct Receiver<T> {
    inner: shuttle::sync::mpsc::Receiver<T>,
}

pub fn channel<T>() -> (Sender<T>, Receiver<T>) {
    let (tx, rx) = sh_channel();
    (tx, Receiver { inner: rx })
}

pub fn sync_channel<T>(bound: usize) -> (SyncSender<T>, Receiver<T>) {
    let (tx, rx) = sh_sync_channel(bound);
    (tx, Receiver { inner: rx })
}

/// Timeouts at least this long are treated as "forever" (`Duration::MAX` in the controller when
/// no progress callback is installed).
const FOREVER: Duration = Duration::from_secs(1_000_000_000);

impl<T> Receiver<T> {
    pub fn recv(&self) -> Result<T, RecvError> {
        self.inner.recv()
    }

    pub fn try_recv(&self) -> Result<T, TryRecvError> {
        self.inner.try_recv()
    }

    pub fn try_iter(&self) -> impl Iterator<Item = T> + '_ {
        std::iter::from_fn(move || self.inner.try_recv().ok())
    }

    pub fn iter(&self) -> impl Iterator<Item = T> + '_ {
        std::iter::from_fn(move || self.inner.recv().ok())
    }

    /// Model of a timed receive under a scheduler without real time:
    ///  * timeout >= FOREVER: a plain blocking receive;
    ///  * timeout == 0: one non-blocking attempt, `Timeout` if nothing is there;
    ///  * otherwise: poll; between polls yield to every other runnable task (the scheduler never
    ///    re-schedules a yielding task while another one is runnable, so the wait is not a spin
    ///    loop in the explored graph); when the scheduler reports that nothing else is runnable,
    ///    only the passage of time can still happen: the clock advances by the timeout and the
    ///    call returns `Timeout`.
    pub fn recv_timeout(&self, timeout: Duration) -> Result<T, RecvTimeoutError> {
        if timeout >= FOREVER {
            return self.inner.recv().map_err(|_| RecvTimeoutError::Disconnected);
        }
        if timeout.is_zero() {
            return match self.inner.try_recv() {
                Ok(v) => Ok(v),
                Err(TryRecvError::Disconnected) => Err(RecvTimeoutError::Disconnected),
                Err(TryRecvError::Empty) => {
                    TIMEOUTS_TAKEN.with(|c| c.set(c.get() + 1));
                    // even an attempt that does not wait takes time: without this tick a caller
                    // that recomputes "rate - elapsed" exactly at its deadline (the controller
                    // with a progress callback) would see a remaining time of zero for ever
                    advance_clock(Duration::from_nanos(1));
                    Err(RecvTimeoutError::Timeout)
                }
            };
        }
        let id = me();
        let deadline = virtual_now().saturating_add(timeout);
        POLLERS.with(|p| p.borrow_mut().insert(id, Poller::Timed { deadline }));
        let res = loop {
            match self.inner.try_recv() {
                Ok(v) => break Ok(v),
                Err(TryRecvError::Disconnected) => break Err(RecvTimeoutError::Disconnected),
                Err(TryRecvError::Empty) => {}
            }
            QUIESCENT_AT_LAST_YIELD.with(|c| c.set(false));
            shuttle::thread::yield_now();
            if QUIESCENT_AT_LAST_YIELD.with(|c| c.get()) {
                // one last look: nothing can have changed, but keep the model simple and safe
                match self.inner.try_recv() {
                    Ok(v) => break Ok(v),
                    Err(TryRecvError::Disconnected) => break Err(RecvTimeoutError::Disconnected),
                    Err(TryRecvError::Empty) => {}
                }
                let now = virtual_now();
                if deadline > now {
                    advance_clock(deadline - now);
                }
                TIMEOUTS_TAKEN.with(|c| c.set(c.get() + 1));
                TIMEOUT_COUNT.with(|c| *c.borrow_mut().entry(id).or_insert(0) += 1);
                break Err(RecvTimeoutError::Timeout);
            }
        };
        POLLERS.with(|p| p.borrow_mut().remove(&id));
        res
    }
}

// ------------------------------------------------------------------------------------------
// threads with std's panic semantics
// ------------------------------------------------------------------------------------------

pub struct JoinHandle<T> {
    inner: shuttle::thread::JoinHandle<std::thread::Result<T>>,
}

impl<T> JoinHandle<T> {
    pub fn join(self) -> std::thread::Result<T> {
        match self.inner.join() {
            Ok(r) => r,
            Err(e) => Err(e),
        }
    }
}

pub fn spawn<F, T>(f: F) -> JoinHandle<T>
where
    F: FnOnce() -> T + Send + 'static,
    T: Send + 'static,
{
    JoinHandle {
        inner: shuttle::thread::spawn(move || {
            std::panic::catch_unwind(std::panic::AssertUnwindSafe(f))
        }),
    }
}

// ------------------------------------------------------------------------------------------
// FIFO thread pool (rayon::ThreadPool::scope_fifo semantics)
// ------------------------------------------------------------------------------------------

#[derive(Debug)]
pub struct ThreadPoolBuildError;
impl std::fmt::Display for ThreadPoolBuildError {
    fn fmt(&self, f: &mut std::fmt::Formatter<'_>) -> std::fmt::Result {
        write!(f, "thread pool build error")
    }
}
impl std::error::Error for ThreadPoolBuildError {}

#[derive(Default)]
pub struct ThreadPoolBuilder {
    num_threads: usize,
}

impl ThreadPoolBuilder {
    pub fn new() -> Self {
        ThreadPoolBuilder { num_threads: 1 }
    }
    pub fn num_threads(mut self, n: usize) -> Self {
        self.num_threads = n;
        self
    }
    pub fn thread_name<F>(self, _f: F) -> Self
    where
        F: FnMut(usize) -> String + 'static,
    {
        self
    }
    pub fn build(self) -> Result<ThreadPool, ThreadPoolBuildError> {
        Ok(ThreadPool {
            num_threads: self.num_threads.max(1),
        })
    }
}

pub struct ThreadPool {
    num_threads: usize,
}

type Job<'scope> = Box<dyn FnOnce(&ScopeFifo<'scope>) + Send + 'scope>;

thread_local! {
    /// task id -> index (submission order) of the pool job it is running (all tasks are coroutines
    /// on one OS thread, so this is per execution, keyed by task)
    static JOB_BY_TASK: std::cell::RefCell<std::collections::HashMap<usize, usize>> = std::cell::RefCell::new(std::collections::HashMap::new());
}

fn task_id() -> Option<usize> {
    shuttle::current::get_current_task().map(|t| t.into())
}

/// Index, in submission order within its scope, of the `spawn_fifo` job the calling task is
/// running (None outside a pool job). Lets a harness tell the jobs apart without relying on
/// anything the job itself computes.
pub fn current_job_index() -> Option<usize> {
    let t = task_id()?;
    JOB_BY_TASK.with(|m| m.borrow().get(&t).copied())
}

struct PoolShared {
    /// pending jobs in submission order (lifetime erased; the scope joins every worker before it returns)
    queue: VecDeque<(usize, Job<'static>)>,
    next_job: usize,
    /// worker tasks currently alive (excluding the thread that runs the scope body)
    live_workers: usize,
    max_workers: usize,
    handles: Vec<shuttle::thread::JoinHandle<()>>,
    panic: Option<Box<dyn std::any::Any + Send>>,
}

/// Plain std mutex: tasks are coroutines on one OS thread and the lock is never held across a
/// scheduling point, so the pool's own bookkeeping adds no scheduling points.
type SharedRef = std::sync::Arc<std::sync::Mutex<PoolShared>>;

pub struct ScopeFifo<'scope> {
    shared: SharedRef,
    _marker: PhantomData<&'scope mut &'scope ()>,
}

impl<'scope> ScopeFifo<'scope> {
    pub fn spawn_fifo<BODY>(&self, body: BODY)
    where
        BODY: FnOnce(&ScopeFifo<'scope>) + Send + 'scope,
    {
        let job: Job<'scope> = Box::new(body);
        // SAFETY: `ThreadPool::scope_fifo` does not return before every job has run and every
        // worker has been joined, so the job never outlives 'scope.
        let job: Job<'static> = unsafe { std::mem::transmute(job) };
        let start_worker = {
            let mut s = self.shared.lock().unwrap();
            let idx = s.next_job;
            s.next_job += 1;
            s.queue.push_back((idx, job));
            if s.live_workers < s.max_workers {
                s.live_workers += 1;
                true
            } else {
                false
            }
        };
        if start_worker {
            let shared = self.shared.clone();
            let h = shuttle::thread::spawn(move || worker_loop(shared));
            self.shared.lock().unwrap().handles.push(h);
        }
    }
}

fn run_job(shared: &SharedRef, job: (usize, Job<'static>)) {
    let (idx, job) = job;
    let me = task_id();
    if let Some(t) = me {
        JOB_BY_TASK.with(|m| m.borrow_mut().insert(t, idx));
    }
    let scope: ScopeFifo<'static> = ScopeFifo {
        shared: shared.clone(),
        _marker: PhantomData,
    };
    let r = std::panic::catch_unwind(std::panic::AssertUnwindSafe(|| job(&scope)));
    if let Some(t) = me {
        JOB_BY_TASK.with(|m| m.borrow_mut().remove(&t));
    }
    if let Err(p) = r {
        let mut s = shared.lock().unwrap();
        if s.panic.is_none() {
            s.panic = Some(p);
        }
    }
}

fn worker_loop(shared: SharedRef) {
    loop {
        let job = {
            let mut s = shared.lock().unwrap();
            match s.queue.pop_front() {
                Some(j) => j,
                None => {
                    s.live_workers -= 1;
                    return;
                }
            }
        };
        run_job(&shared, job);
    }
}

impl ThreadPool {
    /// The scope body runs on the calling task (in rayon: on one pool thread while the caller
    /// blocks), jobs start in submission order on the remaining `num_threads - 1` workers, a
    /// finished worker takes the oldest pending job, and when the body has returned its thread
    /// also drains pending jobs. Returns when all jobs are done; a panic of a job or of the body
    /// is re-raised here.
    pub fn scope_fifo<'scope, OP, R>(&self, op: OP) -> R
    where
        OP: FnOnce(&ScopeFifo<'scope>) -> R + Send,
        R: Send,
    {
        let shared: SharedRef = std::sync::Arc::new(std::sync::Mutex::new(PoolShared {
            queue: VecDeque::new(),
            next_job: 0,
            live_workers: 0,
            max_workers: self.num_threads.saturating_sub(1),
            handles: Vec::new(),
            panic: None,
        }));
        let scope: ScopeFifo<'scope> = ScopeFifo {
            shared: shared.clone(),
            _marker: PhantomData,
        };
        let result = std::panic::catch_unwind(std::panic::AssertUnwindSafe(|| op(&scope)));
        // the body's thread participates in draining the queue
        loop {
            let job = shared.lock().unwrap().queue.pop_front();
            match job {
                Some(j) => run_job(&shared, j),
                None => break,
            }
        }
        loop {
            let h = shared.lock().unwrap().handles.pop();
            match h {
                Some(h) => {
                    let _ = h.join();
                }
                None => break,
            }
        }
        let job_panic = shared.lock().unwrap().panic.take();
        match result {
            Err(p) => std::panic::resume_unwind(p),
            Ok(r) => {
                if let Some(p) = job_panic {
                    std::panic::resume_unwind(p);
                }
                r
            }
        }
    }
}
