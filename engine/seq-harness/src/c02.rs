//! C02 — the integrator is the textbook leapfrog for the implied mass matrix.
//!
//! Bounded-exhaustive over an explicit input alphabet (dimension x kinetic-energy kind x
//! transformation x step size (both signs) x density x start point) plus all step sequences over
//! {Forward, Backward} up to length 4 from each start. The real `Hamiltonian::leapfrog` is compared
//! with an independent dense-matrix reference evaluated in the original parameter space.

use faer::{Col, Mat};
use mc_core::{Partial, Report, Tier};
use nuts_rs::verif::{
    self as nv, Direction, Hamiltonian, LeapfrogResult, LowRankMassMatrix, Point, State,
    TransformedHamiltonian, TransformedPoint, Transformation,
};
use nuts_rs::{KineticEnergyKind, LowRankSettings, Math};
use rand::rngs::ChaCha8Rng;
use rand::SeedableRng;
use serde_json::json;

use crate::common::models::{Dens, Target};
use crate::common::refmodel::{det, esh_reference, leapfrog_x, Dense};
use crate::common::spy::{SpyMath, SpyRc};

pub(crate) type M = SpyMath<Dens>;

pub(crate) struct NoCollector;
impl<MM: Math, P: Point<MM>> nv::Collector<MM, P> for NoCollector {}

#[derive(Clone, Debug)]
pub(crate) enum Trafo {
    Diag { stds: Vec<f64>, mean: Vec<f64> },
    LowRank { stds: Vec<f64>, mean: Vec<f64>, vals: Vec<f64>, vecs: Vec<Vec<f64>>, mu_inner: Vec<f64> },
}

impl Trafo {
    /// dense F and mu with x = F y + mu
    pub(crate) fn dense(&self) -> (Dense, Vec<f64>) {
        match self {
            Trafo::Diag { stds, mean } => (Dense::diag(stds), mean.clone()),
            Trafo::LowRank { stds, mean, vals, vecs, mu_inner } => {
                let d = stds.len();
                // inner = I + U (sqrt(L) - I) U^T
                let mut inner = Dense::identity(d);
                for (j, u) in vecs.iter().enumerate() {
                    let c = vals[j].sqrt() - 1.0;
                    for a in 0..d {
                        for b in 0..d {
                            inner.a[a * d + b] += u[a] * c * u[b];
                        }
                    }
                }
                let f = Dense::diag(stds).mul(&inner);
                let mu: Vec<f64> = (0..d).map(|i| stds[i] * mu_inner[i] + mean[i]).collect();
                (f, mu)
            }
        }
    }
    pub(crate) fn name(&self) -> String {
        match self {
            Trafo::Diag { stds, .. } => format!("diag(min{:e},max{:e})", stds.iter().cloned().fold(f64::INFINITY, f64::min), stds.iter().cloned().fold(0.0, f64::max)),
            Trafo::LowRank { vals, .. } => format!("lowrank(rank{})", vals.len()),
        }
    }
}

pub(crate) fn orthonormal(d: usize, r: usize) -> Vec<Vec<f64>> {
    let mut out: Vec<Vec<f64>> = vec![];
    let mut k = 0;
    while out.len() < r {
        let mut v: Vec<f64> = (0..d).map(|i| ((i + 1) as f64 * (0.7 + k as f64 * 0.31)).sin() + if i == (k % d) { 1.5 } else { 0.0 }).collect();
        for u in &out {
            let dot: f64 = u.iter().zip(&v).map(|(a, b)| a * b).sum();
            for i in 0..d {
                v[i] -= dot * u[i];
            }
        }
        let n = v.iter().map(|x| x * x).sum::<f64>().sqrt();
        k += 1;
        if n < 1e-6 {
            continue;
        }
        v.iter_mut().for_each(|x| *x /= n);
        out.push(v);
    }
    out
}

fn trafos(d: usize, tier: Tier) -> Vec<Trafo> {
    let mut v = vec![];
    let mean: Vec<f64> = (0..d).map(|i| 0.3 * ((i % 5) as f64) - 0.6).collect();
    let scale_sets: Vec<Vec<f64>> = vec![
        vec![1.0],
        vec![1e-3, 1.0, 7.0, 1e3],
        vec![7.0, 1e-3],
        vec![0.3, 4.0],
    ];
    for ss in &scale_sets {
        v.push(Trafo::Diag { stds: (0..d).map(|i| ss[i % ss.len()]).collect(), mean: mean.clone() });
    }
    let eig = [0.01, 1.0, 25.0, 4.0];
    let mut ranks = vec![0usize, 1, 2, d];
    ranks.retain(|r| *r <= d);
    ranks.dedup();
    if tier == Tier::Quick && d > 8 {
        ranks = vec![1, d.min(3)];
    }
    for r in ranks {
        v.push(Trafo::LowRank {
            stds: (0..d).map(|i| if i % 2 == 0 { 0.5 } else { 2.0 }).collect(),
            mean: mean.clone(),
            vals: (0..r).map(|j| eig[j % eig.len()]).collect(),
            vecs: orthonormal(d, r),
            mu_inner: (0..d).map(|i| 0.1 * ((i % 3) as f64) - 0.1).collect(),
        });
    }
    v
}

pub(crate) fn col(v: &[f64]) -> Col<f64> {
    Col::from_fn(v.len(), |i| v[i])
}

pub(crate) struct Sys<T: Transformation<M>> {
    pub math: M,
    pub spy: SpyRc,
    pub h: TransformedHamiltonian<M, T>,
    pub rng: ChaCha8Rng,
}

fn target_for(d: usize, t: &Trafo, which: usize) -> Target {
    let (stds, mean) = match t {
        Trafo::Diag { stds, mean } => (stds.clone(), mean.clone()),
        Trafo::LowRank { stds, mean, .. } => (stds.clone(), mean.clone()),
    };
    match which {
        0 => Target::DiagNormal { mu: mean.iter().map(|m| m + 0.2).collect(), sigma: stds.iter().map(|s| s * 1.3).collect() },
        1 => {
            // correlated Gaussian: precision = D^-1 (I + 0.4 * 11^T / d) D^-1
            let mut prec = vec![0.0; d * d];
            for i in 0..d {
                for j in 0..d {
                    let base = if i == j { 1.0 } else { 0.0 } + 0.4 / d as f64;
                    prec[i * d + j] = base / (stds[i] * stds[j]);
                }
            }
            Target::DenseNormal { mu: mean, prec }
        }
        _ => Target::Quartic { d },
    }
}

/// run `f` with a system whose transformation is `t`
#[macro_export]
macro_rules! with_sys {
    ($d:expr, $t:expr, $target:expr, $kind:expr, |$sys:ident| $body:expr) => {{
        let (mut math, spy) = SpyMath::new(Dens::new($target.clone()));
        let rng = ChaCha8Rng::seed_from_u64(1);
        match $t {
            Trafo::Diag { stds, mean } => {
                let mut mm = nv::diag_mass_matrix_new(&mut math, false);
                nv::diag_mass_matrix_set(&mut mm, &mut math, &col(stds), &col(mean));
                let h = TransformedHamiltonian::new(&mut math, mm, $kind);
                let mut $sys = $crate::c02::Sys { math, spy, h, rng };
                $body
            }
            Trafo::LowRank { stds, mean, vals, vecs, mu_inner } => {
                let mut mm = LowRankMassMatrix::new(&mut math, LowRankSettings::default());
                let d: usize = $d;
                let vm: Mat<f64> = Mat::from_fn(d, vals.len(), |i, j| vecs[j][i]);
                mm.update(&mut math, col(stds), col(mean), col(vals), vm, col(mu_inner));
                let h = TransformedHamiltonian::new(&mut math, mm, $kind);
                let mut $sys = $crate::c02::Sys { math, spy, h, rng };
                $body
            }
        }
    }};
}

#[derive(Clone, Debug)]
struct Snap {
    x: Vec<f64>,
    y: Vec<f64>,
    v: Vec<f64>,
    gy: Vec<f64>,
    gx: Vec<f64>,
    energy: f64,
    logp: f64,
    idx: i64,
}

fn snap<T: Transformation<M>>(s: &mut Sys<T>, st: &State<M, TransformedPoint<M>>) -> Snap {
    let p = st.point();
    Snap {
        x: s.math.box_array(p.position()).to_vec(),
        y: nv::point_transformed_position(p, &mut s.math).to_vec(),
        v: nv::point_velocity(p, &mut s.math).to_vec(),
        gy: nv::point_transformed_gradient(p, &mut s.math).to_vec(),
        gx: s.math.box_array(p.gradient()).to_vec(),
        energy: p.energy(),
        logp: p.logp(),
        idx: p.index_in_trajectory(),
    }
}

fn start_state<T: Transformation<M>>(s: &mut Sys<T>, x: &[f64], z: &[f64]) -> Option<State<M, TransformedPoint<M>>> {
    let mut st = s.h.init_state(&mut s.math, x).ok()?;
    s.spy.borrow_mut().gaussian_script.push_back(z.to_vec());
    s.h.initialize_trajectory(&mut s.math, &mut st, true, &mut s.rng).ok()?;
    Some(st)
}

fn step<T: Transformation<M>>(s: &mut Sys<T>, st: &State<M, TransformedPoint<M>>, dir: Direction) -> Option<State<M, TransformedPoint<M>>> {
    step_f(s, st, dir, 1.0)
}

/// one leapfrog with an explicit step-size factor (the dynamic step-size retry of MCLMC halves it)
fn step_f<T: Transformation<M>>(s: &mut Sys<T>, st: &State<M, TransformedPoint<M>>, dir: Direction, factor: f64) -> Option<State<M, TransformedPoint<M>>> {
    let e0 = st.point().initial_energy();
    match s.h.leapfrog(&mut s.math, st, dir, factor, e0, f64::INFINITY, &mut NoCollector) {
        LeapfrogResult::Ok(e) => Some(e),
        _ => None,
    }
}

fn max_rel(a: &[f64], b: &[f64]) -> f64 {
    let scale = a.iter().chain(b.iter()).fold(1.0f64, |m, x| m.max(x.abs()));
    a.iter().zip(b).fold(0.0f64, |m, (x, y)| m.max((x - y).abs())) / scale
}

struct Case {
    d: usize,
    kind: KineticEnergyKind,
    trafo: Trafo,
    target_idx: usize,
    eps: f64,
    point_idx: usize,
}

/// longest {F,B} word of the path-independence exploration (4 in Q, 7 in T)
static SEQ_LEN: std::sync::atomic::AtomicUsize = std::sync::atomic::AtomicUsize::new(4);

fn whitened_start(d: usize, k: usize) -> (Vec<f64>, Vec<f64>) {
    let y: Vec<f64> = (0..d).map(|i| ((i as f64 + 1.0) * (0.9 + 0.37 * k as f64)).sin() * 1.2 + 0.15).collect();
    let z: Vec<f64> = (0..d).map(|i| ((i as f64 + 2.0) * (1.3 + 0.21 * k as f64)).cos() * 0.9 - 0.1).collect();
    (y, z)
}

fn check_case(c: &Case, p: &mut Partial, deep: bool) {
    let d = c.d;
    let (f, mu) = c.trafo.dense();
    let target = target_for(d, &c.trafo, c.target_idx);
    let key = format!("d{d}/{:?}/{}/target{}/eps{}/pt{}", c.kind, c.trafo.name(), c.target_idx, c.eps, c.point_idx);
    let replay = json!({"d": d, "kind": format!("{:?}", c.kind), "transformation": format!("{:?}", c.trafo).chars().take(400).collect::<String>(), "target": c.target_idx, "eps": c.eps, "point": c.point_idx});
    let mut viol = |oracle: &str, detail: String, p: &mut Partial| {
        p.violation(format!("C02/{oracle}/{key}"), detail, replay.clone());
    };
    let (y0, z0) = whitened_start(d, c.point_idx);
    let fy = f.mul_vec(&y0);
    let x0: Vec<f64> = (0..d).map(|i| fy[i] + mu[i]).collect();
    p.evaluations += 1;
    with_sys!(d, &c.trafo, target, c.kind, |s| {
        *s.h.step_size_mut() = c.eps.abs();
        let dir = if c.eps > 0.0 { Direction::Forward } else { Direction::Backward };
        let Some(st) = start_state(&mut s, &x0, &z0) else {
            viol("init-failed", String::new(), p);
            return;
        };
        let a = snap(&mut s, &st);
        // ---- transformation consistency: y = F^-1 (x - mu), g_y = F^T g_x, logdet ----
        let (y_ref, logabsdet) = f.solve(&(0..d).map(|i| a.x[i] - mu[i]).collect::<Vec<_>>());
        if max_rel(&a.y, &y_ref) > 1e-9 {
            viol("transformed-position", format!("{:?} vs F^-1(x-mu) {:?}", &a.y[..d.min(4)], &y_ref[..d.min(4)]), p);
            return;
        }
        let mut g = vec![0.0; d];
        let lp = target.logp(&a.x, &mut g);
        let gy_ref = f.tmul_vec(&g);
        if max_rel(&a.gy, &gy_ref) > 1e-9 || a.logp.to_bits() != lp.to_bits() || !mc_core::slice_bits_eq(&a.gx, &g) {
            viol("gradient-pull-back", format!("{:?} vs F^T grad {:?}", &a.gy[..d.min(4)], &gy_ref[..d.min(4)]), p);
            return;
        }
        // energy = K - logp - logdet with logdet = log|det dy/dx| = -ln|det F|
        let kin = match c.kind {
            KineticEnergyKind::Microcanonical => 0.0,
            _ => 0.5 * a.v.iter().map(|v| v * v).sum::<f64>(),
        };
        let e_ref = kin - (lp - logabsdet);
        if !mc_core::rel_close(a.energy, e_ref, 1e-9, 1e-9) {
            viol("energy-or-logdet", format!("energy {} vs K - logp + ln|det F| = {}", a.energy, e_ref), p);
            return;
        }
        // ---- one step vs the reference ----
        let mut grad_fn0 = |x: &[f64]| {
            let mut g = vec![0.0; d];
            target.logp(x, &mut g);
            g
        };
        // a saturated ESH update (delta = step * |g| / (d-1) beyond 30: exp(-delta) is below
        // rounding, for backward steps exp(+delta) heads for overflow) is outside the regime in
        // which a closed-form reference and the implementation can be compared: counted, not judged
        let esh_saturated = if c.kind == KineticEnergyKind::Microcanonical && d >= 2 {
            let sq = (d as f64).sqrt();
            let h = sq * c.eps / 2.0;
            let norm = |g: &[f64]| g.iter().map(|x| x * x).sum::<f64>().sqrt();
            let d1 = h.abs() * norm(&a.gy) / (d as f64 - 1.0);
            let (u1, _) = esh_reference(&a.gy, &a.v, h);
            let y1: Vec<f64> = (0..d).map(|i| a.y[i] + c.eps * sq * u1[i]).collect();
            let fy1 = f.mul_vec(&y1);
            let x1: Vec<f64> = (0..d).map(|i| fy1[i] + mu[i]).collect();
            let g1 = f.tmul_vec(&grad_fn0(&x1));
            let d2 = h.abs() * norm(&g1) / (d as f64 - 1.0);
            !(d1 <= 30.0 && d2 <= 30.0)
        } else {
            false
        };
        let Some(e) = step(&mut s, &st, dir) else {
            if esh_saturated {
                p.count("saturated_esh_steps_not_judged", 1);
                return;
            }
            viol("leapfrog-not-ok", String::new(), p);
            return;
        };
        if esh_saturated {
            p.count("saturated_esh_steps_not_judged", 1);
            return;
        }
        let b = snap(&mut s, &e);
        if b.idx != a.idx + if c.eps > 0.0 { 1 } else { -1 } {
            viol("index-in-trajectory", format!("{} -> {}", a.idx, b.idx), p);
        }
        // x = F y + mu must hold for the new state as well (bijection / inverse consistency)
        let fyb = f.mul_vec(&b.y);
        let xb: Vec<f64> = (0..d).map(|i| fyb[i] + mu[i]).collect();
        if max_rel(&b.x, &xb) > 1e-9 {
            viol("untransformed-position", format!("{:?} vs F y + mu {:?}", &b.x[..d.min(4)], &xb[..d.min(4)]), p);
            return;
        }
        let mut grad_fn = |x: &[f64]| {
            let mut g = vec![0.0; d];
            target.logp(x, &mut g);
            g
        };
        match c.kind {
            KineticEnergyKind::Euclidean => {
                // x-space momentum p = F^-T v ; Minv = F F^T
                let (p0, _) = f.transpose().solve(&a.v);
                let minv = f.mul(&f.transpose());
                let (x1, p1) = leapfrog_x(&minv, &a.x, &p0, c.eps, &mut grad_fn);
                let (y1, _) = f.solve(&(0..d).map(|i| x1[i] - mu[i]).collect::<Vec<_>>());
                let v1 = f.tmul_vec(&p1);
                if max_rel(&b.y, &y1) > 1e-8 || max_rel(&b.v, &v1) > 1e-8 {
                    viol(
                        "not-the-textbook-leapfrog",
                        format!("whitened position {:?} vs reference {:?}; velocity {:?} vs {:?}", &b.y[..d.min(3)], &y1[..d.min(3)], &b.v[..d.min(3)], &v1[..d.min(3)]),
                        p,
                    );
                    return;
                }
            }
            KineticEnergyKind::ExactNormal => {
                // harmonic splitting in whitened space: kick with (y + g_y), rotate, kick
                let h = c.eps;
                let vh: Vec<f64> = (0..d).map(|i| a.v[i] + 0.5 * h * (a.y[i] + a.gy[i])).collect();
                let (sn, cs) = (h.sin(), h.cos());
                let y1: Vec<f64> = (0..d).map(|i| a.y[i] * cs + vh[i] * sn).collect();
                let vr: Vec<f64> = (0..d).map(|i| -a.y[i] * sn + vh[i] * cs).collect();
                let fy1 = f.mul_vec(&y1);
                let x1: Vec<f64> = (0..d).map(|i| fy1[i] + mu[i]).collect();
                let g1 = f.tmul_vec(&grad_fn(&x1));
                let v1: Vec<f64> = (0..d).map(|i| vr[i] + 0.5 * h * (y1[i] + g1[i])).collect();
                if max_rel(&b.y, &y1) > 1e-8 || max_rel(&b.v, &v1) > 1e-8 {
                    viol("not-the-harmonic-splitting-step", format!("{:?} vs {:?}", &b.y[..d.min(3)], &y1[..d.min(3)]), p);
                    return;
                }
            }
            KineticEnergyKind::Microcanonical => {
                if d >= 2 {
                    let sq = (d as f64).sqrt();
                    let (u1, dk1) = esh_reference(&a.gy, &a.v, sq * c.eps / 2.0);
                    let y1: Vec<f64> = (0..d).map(|i| a.y[i] + c.eps * sq * u1[i]).collect();
                    let fy1 = f.mul_vec(&y1);
                    let x1: Vec<f64> = (0..d).map(|i| fy1[i] + mu[i]).collect();
                    let g1 = f.tmul_vec(&grad_fn(&x1));
                    let (u2, dk2) = esh_reference(&g1, &u1, sq * c.eps / 2.0);
                    let nrm = b.v.iter().map(|v| v * v).sum::<f64>().sqrt();
                    if max_rel(&b.y, &y1) > 1e-8 || max_rel(&b.v, &u2) > 1e-8 || (nrm - 1.0).abs() > 1e-12 {
                        viol("not-the-esh-step", format!("{:?} vs {:?}; |u|={nrm}", &b.y[..d.min(3)], &y1[..d.min(3)]), p);
                        return;
                    }
                    let mut gg = vec![0.0; d];
                    let lp1 = target.logp(&b.x, &mut gg);
                    let de_ref = (dk1 + dk2) - (lp1 - lp);
                    if !mc_core::rel_close(b.energy - a.energy, de_ref, 1e-8, 1e-9) {
                        viol("esh-energy-change", format!("{} vs {}", b.energy - a.energy, de_ref), p);
                        return;
                    }
                }
            }
        }
        // ---- conditioning: the remaining oracles compare states reached by different
        // operation orders; outside the regime where one step is a small perturbation (stiff
        // quartic, saturated ESH update) rounding errors are amplified beyond any tolerance.
        // Such cases are counted, not judged.
        let big = b.y.iter().chain(b.v.iter()).chain(b.gy.iter()).fold(0.0f64, |m, x| m.max(x.abs()));
        let esh_delta = if c.kind == KineticEnergyKind::Microcanonical && d >= 2 {
            let gn = a.gy.iter().map(|g| g * g).sum::<f64>().sqrt().max(b.gy.iter().map(|g| g * g).sum::<f64>().sqrt());
            (d as f64).sqrt() * c.eps.abs() / 2.0 * gn / (d as f64 - 1.0)
        } else {
            0.0
        };
        if !((b.energy - a.energy).abs() <= 5.0) || big > 1e4 || esh_delta > 4.0 {
            p.count("ill_conditioned_cases_not_judged_for_reversibility", 1);
            return;
        }
        // ---- step-size factor: a step of base size eps/f taken with factor f is the step of size
        // eps, from a fresh state and from a state that was itself reached with another factor
        for fct in [0.5f64, 0.25] {
            *s.h.step_size_mut() = c.eps.abs() / fct;
            let first = step_f(&mut s, &st, dir, fct);
            let second = step_f(&mut s, &e, dir, fct);
            *s.h.step_size_mut() = c.eps.abs();
            let second_plain = step(&mut s, &e, dir);
            let same = |u: &Option<State<M, TransformedPoint<M>>>, w: &Snap, s: &mut Sys<_>| -> Option<String> {
                let Some(u) = u else { return Some("step failed".to_string()) };
                let us = snap(s, u);
                if max_rel(&us.y, &w.y) > 1e-12 || max_rel(&us.v, &w.v) > 1e-12 || !mc_core::rel_close(us.energy, w.energy, 1e-12, 1e-12) {
                    return Some(format!("position {:?} vs {:?}; velocity {:?} vs {:?}", &us.y[..d.min(3)], &w.y[..d.min(3)], &us.v[..d.min(3)], &w.v[..d.min(3)]));
                }
                None
            };
            if let Some(msg) = same(&first, &b, &mut s) {
                viol("step-size-factor-not-equivalent-to-smaller-step", format!("factor {fct} from a fresh state: {msg}"), p);
                return;
            }
            if let Some(plain) = &second_plain {
                let w = snap(&mut s, plain);
                if let Some(msg) = same(&second, &w, &mut s) {
                    viol("step-size-factor-not-equivalent-to-smaller-step", format!("factor {fct} after a step taken with factor 1: {msg}"), p);
                    return;
                }
            }
            p.count("step_size_factor_equivalences_checked", 1);
        }
        // ---- time reversibility: a step back returns the start ----
        let back = if c.eps > 0.0 { Direction::Backward } else { Direction::Forward };
        if let Some(r) = step(&mut s, &e, back) {
            let rr = snap(&mut s, &r);
            if max_rel(&rr.y, &a.y) > 1e-9 || max_rel(&rr.v, &a.v) > 1e-9 || rr.idx != a.idx {
                viol("not-time-reversible", format!("forward+backward returns {:?} instead of {:?}", &rr.y[..d.min(3)], &a.y[..d.min(3)]), p);
                return;
            }
        } else {
            viol("reverse-step-failed", String::new(), p);
            return;
        }
        // ---- exact energy conservation of ExactNormal on the standard normal ----
        p.class(format!("{:?}:{}:t{}:{}", c.kind, c.trafo.name().split('(').next().unwrap_or(""), c.target_idx, if c.eps > 0.0 { "fwd" } else { "bwd" }));

        if !deep {
            return;
        }
        // ---- all step sequences over {F,B} up to length 4: equal net index => equal state ----
        let scale_span = match &c.trafo {
            Trafo::Diag { stds, .. } | Trafo::LowRank { stds, .. } => {
                stds.iter().cloned().fold(0.0f64, f64::max) / stds.iter().cloned().fold(f64::INFINITY, f64::min)
            }
        };
        let mut by_index: std::collections::BTreeMap<i64, Snap> = std::collections::BTreeMap::new();
        by_index.insert(0, a.clone());
        let mut frontier: Vec<(State<M, TransformedPoint<M>>, i64, String)> = vec![(st.clone(), 0, String::new())];
        for _len in 0..SEQ_LEN.load(std::sync::atomic::Ordering::Relaxed) {
            let mut next = vec![];
            for (stt, idx, word) in &frontier {
                for (dd, ch, di) in [(Direction::Forward, 'F', 1i64), (Direction::Backward, 'B', -1i64)] {
                    let Some(n) = step(&mut s, stt, dd) else {
                        viol("sequence-step-failed", format!("{word}{ch}"), p);
                        return;
                    };
                    let sn = snap(&mut s, &n);
                    p.evaluations += 1;
                    let ni = idx + di;
                    let bigs = sn.y.iter().chain(sn.v.iter()).chain(sn.gy.iter()).fold(0.0f64, |m, x| m.max(x.abs()));
                    let gns = sn.gy.iter().map(|g| g * g).sum::<f64>().sqrt();
                    let esh_d = if c.kind == KineticEnergyKind::Microcanonical && d >= 2 { (d as f64).sqrt() * c.eps.abs() / 2.0 * gns / (d as f64 - 1.0) } else { 0.0 };
                    // words longer than 4 (thorough tier) are judged on transformations whose scales span
                    // at most three decades: out-and-back paths of 3+3 steps through scales 1e-3..1e3
                    // amplify rounding in the microcanonical update beyond the 1e-8 tolerance
                    // (measured 4e-10 absolute on O(1) coordinates after BBBFFF) - conditioning of
                    // the arithmetic, not path dependence of the integrator
                    if word.len() + 1 > 4 && scale_span > 1e3 {
                        p.count("long_words_on_scales_spanning_more_than_three_decades_not_judged", 1);
                        continue;
                    }
                    if !((sn.energy - a.energy).abs() <= 5.0) || bigs > 1e4 || esh_d > 4.0 {
                        p.count("ill_conditioned_sequence_branches_not_judged", 1);
                        continue;
                    }
                    if sn.idx != ni {
                        viol("index-in-trajectory", format!("after {word}{ch}: {}", sn.idx), p);
                        return;
                    }
                    match by_index.get(&ni) {
                        Some(prev) => {
                            if max_rel(&prev.y, &sn.y) > 1e-8 || max_rel(&prev.v, &sn.v) > 1e-8 || !mc_core::rel_close(prev.energy, sn.energy, 1e-8, 1e-8) {
                                viol("state-depends-on-the-path", format!("index {ni} reached by {word}{ch} differs: {:?} vs {:?}", &sn.y[..d.min(3)], &prev.y[..d.min(3)]), p);
                                return;
                            }
                        }
                        None => {
                            by_index.insert(ni, sn);
                        }
                    }
                    next.push((n, ni, format!("{word}{ch}")));
                }
            }
            frontier = next;
        }
        p.class(format!("sequences:{:?}", c.kind));
    });
}

/// volume preservation and O(eps^2) energy error on small systems
fn check_flow_properties(kind: KineticEnergyKind, t: &Trafo, target_idx: usize, eps: f64, p: &mut Partial) {
    let d = match t {
        Trafo::Diag { stds, .. } => stds.len(),
        Trafo::LowRank { stds, .. } => stds.len(),
    };
    let (f, mu) = t.dense();
    let target = target_for(d, t, target_idx);
    let key = format!("flow/d{d}/{kind:?}/{}/target{target_idx}/eps{eps}", t.name());
    let replay = json!({"d": d, "kind": format!("{kind:?}"), "transformation": format!("{t:?}").chars().take(300).collect::<String>(), "target": target_idx, "eps": eps});
    let (y0, z0) = whitened_start(d, 1);
    p.evaluations += 1;
    with_sys!(d, t, target, kind, |s| {
        *s.h.step_size_mut() = eps;
        // map (y, v) -> (y', v')
        let mut map = |yv: &[f64], s: &mut Sys<_>| -> Option<Vec<f64>> {
            let fy = f.mul_vec(&yv[..d]);
            let x: Vec<f64> = (0..d).map(|i| fy[i] + mu[i]).collect();
            let st = start_state(s, &x, &yv[d..])?;
            let e = step(s, &st, Direction::Forward)?;
            let b = snap(s, &e);
            let mut out = b.y.clone();
            out.extend(b.v);
            Some(out)
        };
        let mut base: Vec<f64> = y0.clone();
        base.extend(z0.clone());
        let n = 2 * d;
        let h = 1e-5;
        let mut jac = vec![0.0; n * n];
        for j in 0..n {
            let mut plus = base.clone();
            plus[j] += h;
            let mut minus = base.clone();
            minus[j] -= h;
            let (Some(fp), Some(fm)) = (map(&plus, &mut s), map(&minus, &mut s)) else {
                p.violation(format!("C02/flow-step-failed/{key}"), String::new(), replay.clone());
                return;
            };
            for i in 0..n {
                jac[i * n + j] = (fp[i] - fm[i]) / (2.0 * h);
            }
        }
        let dt = det(n, &jac);
        if (dt - 1.0).abs() > 1e-5 {
            p.violation(format!("C02/not-volume-preserving/{key}"), format!("finite-difference Jacobian determinant of one step = {dt}"), replay.clone());
            return;
        }
        // O(eps^2): energy error over a fixed time with N and 2N steps
        let total = 0.6;
        let mut errs = vec![];
        for nsteps in [6usize, 12] {
            *s.h.step_size_mut() = total / nsteps as f64;
            let fy = f.mul_vec(&y0);
            let x: Vec<f64> = (0..d).map(|i| fy[i] + mu[i]).collect();
            let Some(mut st) = start_state(&mut s, &x, &z0) else { return };
            let e0 = st.point().energy();
            let mut worst: f64 = 0.0;
            for _ in 0..nsteps {
                let Some(n) = step(&mut s, &st, Direction::Forward) else { return };
                worst = worst.max((n.point().energy() - e0).abs());
                st = n;
            }
            errs.push(worst);
        }
        if errs[0] > 0.3 {
            p.count("flow_cases_outside_asymptotic_regime", 1);
        } else if errs[0] > 1e-9 {
            let ratio = errs[0] / errs[1];
            if !(ratio > 2.5 && ratio < 6.5) {
                p.violation(
                    format!("C02/energy-error-not-second-order/{key}"),
                    format!("max |dH| with 6 steps {:e}, with 12 steps {:e}: ratio {ratio}", errs[0], errs[1]),
                    replay.clone(),
                );
                return;
            }
        }
        p.class(format!("flow:{kind:?}:{}", t.name().split('(').next().unwrap_or("")));
    });
}

fn check_exact_normal_conservation(d: usize, eps: f64, p: &mut Partial) {
    let t = Trafo::Diag { stds: vec![1.0; d], mean: vec![0.0; d] };
    let target = Target::std_normal(d);
    let (y0, z0) = whitened_start(d, 2);
    p.evaluations += 1;
    with_sys!(d, &t, target, KineticEnergyKind::ExactNormal, |s| {
        *s.h.step_size_mut() = eps.abs();
        let Some(mut st) = start_state(&mut s, &y0, &z0) else { return };
        let e0 = st.point().energy();
        for k in 0..8 {
            let dir = if eps > 0.0 { Direction::Forward } else { Direction::Backward };
            let Some(n) = step(&mut s, &st, dir) else { return };
            let de = (n.point().energy() - e0).abs();
            if de > 1e-11 * (1.0 + e0.abs()) {
                p.violation(
                    format!("C02/exact-normal-does-not-conserve-energy/d{d}/eps{eps}"),
                    format!("step {k}: |dH| = {de:e}"),
                    json!({"d": d, "eps": eps}),
                );
                return;
            }
            st = n;
        }
        p.class("exactnormal-conservation".to_string());
    });
}

/// initialize_trajectory re-derives the whitened coordinates after the transformation changed
fn check_rewhiten(d: usize, p: &mut Partial) {
    let (mut math, spy) = SpyMath::new(Dens::new(Target::std_normal(d)));
    let mut rng = ChaCha8Rng::seed_from_u64(3);
    let mut mm = nv::diag_mass_matrix_new(&mut math, false);
    let s1: Vec<f64> = (0..d).map(|i| 0.5 + i as f64).collect();
    let m1: Vec<f64> = (0..d).map(|i| 0.1 * i as f64).collect();
    nv::diag_mass_matrix_set(&mut mm, &mut math, &col(&s1), &col(&m1));
    let mut h = TransformedHamiltonian::new(&mut math, mm, KineticEnergyKind::Euclidean);
    let x: Vec<f64> = (0..d).map(|i| 0.3 + 0.2 * i as f64).collect();
    p.evaluations += 1;
    let Ok(mut st) = h.init_state(&mut math, &x) else { return };
    // change the transformation (id bumps), then start a trajectory from the old state
    let s2: Vec<f64> = (0..d).map(|i| 2.0 + 0.25 * i as f64).collect();
    let m2: Vec<f64> = (0..d).map(|i| -0.3 + 0.05 * i as f64).collect();
    nv::diag_mass_matrix_set(h.transformation_mut(), &mut math, &col(&s2), &col(&m2));
    spy.borrow_mut().gaussian_script.push_back(vec![0.5; d]);
    if h.initialize_trajectory(&mut math, &mut st, true, &mut rng).is_err() {
        return;
    }
    let y = nv::point_transformed_position(st.point(), &mut math).to_vec();
    let gy = nv::point_transformed_gradient(st.point(), &mut math).to_vec();
    let Ok(fresh) = h.init_state(&mut math, &x) else { return };
    let y2 = nv::point_transformed_position(fresh.point(), &mut math).to_vec();
    let gy2 = nv::point_transformed_gradient(fresh.point(), &mut math).to_vec();
    let y_ref: Vec<f64> = (0..d).map(|i| (x[i] - m2[i]) / s2[i]).collect();
    if max_rel(&y, &y2) > 1e-12 || max_rel(&gy, &gy2) > 1e-12 || max_rel(&y, &y_ref) > 1e-12 {
        p.violation(
            format!("C02/stale-whitened-coordinates-after-transformation-change/d{d}"),
            format!("{:?} vs fresh {:?}", &y[..d.min(3)], &y2[..d.min(3)]),
            json!({"d": d}),
        );
    }
    let e = st.point().energy();
    let ld: f64 = -s2.iter().map(|s| s.ln()).sum::<f64>();
    let mut g = vec![0.0; d];
    let lp = Target::std_normal(d).logp(&x, &mut g);
    let e_ref = 0.5 * 0.25 * d as f64 - (lp + ld);
    if !mc_core::rel_close(e, e_ref, 1e-10, 1e-10) {
        p.violation(format!("C02/stale-logdet-after-transformation-change/d{d}"), format!("{e} vs {e_ref}"), json!({"d": d}));
    }
    p.class("rewhiten".to_string());
}

/// the same for the low-rank transformation: after an update that installs a spectral part with
/// det != 1 the state re-derived by initialize_trajectory must be the state a fresh init_state
/// builds (whitened position, whitened gradient and potential energy incl. the log-determinant)
fn check_rewhiten_lowrank(d: usize, p: &mut Partial) {
    if d < 2 {
        return;
    }
    for rank in [1usize, 2.min(d), d] {
        let (mut math, spy) = SpyMath::new(Dens::new(Target::std_normal(d)));
        let mut rng = ChaCha8Rng::seed_from_u64(3);
        let mut mm = LowRankMassMatrix::new(&mut math, LowRankSettings::default());
        let s1: Vec<f64> = (0..d).map(|i| 0.5 + 0.1 * i as f64).collect();
        let m1: Vec<f64> = (0..d).map(|i| 0.1 * i as f64).collect();
        mm.update(&mut math, col(&s1), col(&m1), col(&[]), Mat::from_fn(d, 0, |_, _| 0.0), col(&vec![0.0; d]));
        let mut h = TransformedHamiltonian::new(&mut math, mm, KineticEnergyKind::Euclidean);
        let x: Vec<f64> = (0..d).map(|i| 0.3 + 0.2 * i as f64).collect();
        p.evaluations += 1;
        let Ok(mut st) = h.init_state(&mut math, &x) else { return };
        let s2: Vec<f64> = (0..d).map(|i| 2.0 + 0.25 * i as f64).collect();
        let m2: Vec<f64> = (0..d).map(|i| -0.3 + 0.05 * i as f64).collect();
        let eig = [36.0, 0.1, 4.0, 0.01];
        let vals: Vec<f64> = (0..rank).map(|j| eig[j % eig.len()]).collect();
        let vecs = orthonormal(d, rank);
        let vm: Mat<f64> = Mat::from_fn(d, rank, |i, j| vecs[j][i]);
        let mu_inner: Vec<f64> = (0..d).map(|i| 0.1 * ((i % 3) as f64) - 0.1).collect();
        h.transformation_mut().update(&mut math, col(&s2), col(&m2), col(&vals), vm, col(&mu_inner));
        spy.borrow_mut().gaussian_script.push_back(vec![0.5; d]);
        if h.initialize_trajectory(&mut math, &mut st, true, &mut rng).is_err() {
            p.violation(format!("C02/initialize-trajectory-failed-after-low-rank-update/d{d}/rank{rank}"), String::new(), json!({"d": d, "rank": rank}));
            continue;
        }
        let Ok(fresh) = h.init_state(&mut math, &x) else { continue };
        let pot = |s: &State<M, TransformedPoint<M>>, math: &mut M| -> (Vec<f64>, Vec<f64>, f64) {
            let y = nv::point_transformed_position(s.point(), math).to_vec();
            let gy = nv::point_transformed_gradient(s.point(), math).to_vec();
            let v = nv::point_velocity(s.point(), math).to_vec();
            (y, gy, s.point().energy() - 0.5 * v.iter().map(|v| v * v).sum::<f64>())
        };
        let (y, gy, e) = pot(&st, &mut math);
        let (y2, gy2, e2) = pot(&fresh, &mut math);
        if max_rel(&y, &y2) > 1e-12 || max_rel(&gy, &gy2) > 1e-12 {
            p.violation(format!("C02/stale-whitened-coordinates-after-transformation-change/lowrank/d{d}/rank{rank}"), format!("{:?} vs fresh {:?}", &y[..d.min(3)], &y2[..d.min(3)]), json!({"d": d, "rank": rank}));
        }
        if !mc_core::rel_close(e, e2, 1e-10, 1e-10) {
            p.violation(
                format!("C02/stale-logdet-after-transformation-change/lowrank/d{d}/rank{rank}"),
                format!("potential energy (-logp - logdet) of the re-derived state {e} vs {e2} of a fresh state at the same position"),
                json!({"d": d, "rank": rank}),
            );
        }
        p.class(format!("rewhiten-lowrank:rank{}", rank.min(3)));
    }
}

/// the low-rank transformation in its gradient-initialised state (after update_from_grad, before
/// the first window update: the state every low-rank chain starts in): forward map, inverse map,
/// gradient pull-back and energies are mutually consistent along a few leapfrog steps
fn check_gradinit_lowrank(d: usize, kind: KineticEnergyKind, p: &mut Partial) {
    if d < 2 && kind == KineticEnergyKind::Microcanonical {
        return;
    }
    let target = Target::DiagNormal { mu: (0..d).map(|i| 0.2 * i as f64 - 0.3).collect(), sigma: (0..d).map(|i| 0.4 + 0.7 * i as f64).collect() };
    let (mut math, spy) = SpyMath::new(Dens::new(target.clone()));
    let mut rng = ChaCha8Rng::seed_from_u64(5);
    let mut mm = LowRankMassMatrix::new(&mut math, LowRankSettings::default());
    let pos0: Vec<f64> = (0..d).map(|i| 0.9 - 0.35 * i as f64).collect();
    let mut g0 = vec![0.0; d];
    target.logp(&pos0, &mut g0);
    mm.update_from_grad(&mut math, &col(&pos0), &col(&g0), 1.0, (1e-20, 1e20));
    let mut h = TransformedHamiltonian::new(&mut math, mm, kind);
    *h.step_size_mut() = 0.2;
    p.evaluations += 1;
    let key = format!("lowrank-gradinit/d{d}/{kind:?}");
    let replay = json!({"d": d, "kind": format!("{kind:?}")});
    let Ok(mut st) = h.init_state(&mut math, &pos0) else { return };
    spy.borrow_mut().gaussian_script.push_back((0..d).map(|i| 0.6 - 0.25 * i as f64).collect());
    if h.initialize_trajectory(&mut math, &mut st, true, &mut rng).is_err() {
        return;
    }
    let mut cur = st.clone();
    for stepno in 0..3 {
        let e0 = cur.point().initial_energy();
        let next = match h.leapfrog(&mut math, &cur, Direction::Forward, 1.0, e0, f64::INFINITY, &mut NoCollector) {
            LeapfrogResult::Ok(n) => n,
            _ => {
                p.violation(format!("C02/leapfrog-not-ok/{key}"), format!("step {stepno}"), replay);
                return;
            }
        };
        // inverse map and pull-back of the transformation object itself applied to the new state
        let x = math.box_array(next.point().position()).to_vec();
        let mut g = vec![0.0; d];
        target.logp(&x, &mut g);
        let mut yv = math.new_array();
        let mut gyv = math.new_array();
        use nuts_rs::verif::Transformation;
        if h.transformation_mut().inv_transform_normalize(&mut math, &col(&x), &col(&g), &mut yv, &mut gyv).is_err() {
            p.violation(format!("C02/inverse-map-failed/{key}"), format!("step {stepno}"), replay);
            return;
        }
        let y = nv::point_transformed_position(next.point(), &mut math).to_vec();
        let gy = nv::point_transformed_gradient(next.point(), &mut math).to_vec();
        let y2 = math.box_array(&yv).to_vec();
        let gy2 = math.box_array(&gyv).to_vec();
        if max_rel(&y, &y2) > 1e-9 || max_rel(&gy, &gy2) > 1e-9 {
            p.violation(
                format!("C02/forward-and-inverse-map-disagree/{key}"),
                format!("step {stepno}: whitened position of the state {:?}, inverse map of its position {:?}", &y[..d.min(3)], &y2[..d.min(3)]),
                replay,
            );
            return;
        }
        // stepping back returns the previous state
        let e1 = next.point().initial_energy();
        if let LeapfrogResult::Ok(back) = h.leapfrog(&mut math, &next, Direction::Backward, 1.0, e1, f64::INFINITY, &mut NoCollector) {
            let xb = math.box_array(back.point().position()).to_vec();
            let xc = math.box_array(cur.point().position()).to_vec();
            if max_rel(&xb, &xc) > 1e-9 {
                p.violation(format!("C02/not-time-reversible/{key}"), format!("step {stepno}: forward+backward returns {:?} instead of {:?}", &xb[..d.min(3)], &xc[..d.min(3)]), replay);
                return;
            }
        }
        cur = next;
    }
    p.class(format!("lowrank-gradinit:{kind:?}"));
}

/// The same through every way the real adaptation strategies change a transformation (the
/// draw-variance-only diagonal estimate, the draw/gradient estimate, the gradient initialiser,
/// the low-rank window update and its gradient initialiser): a state whitened before the change
/// and handed to `initialize_trajectory` afterwards must be the state a fresh `init_state`
/// builds at the same position, and one leapfrog step from both must agree.
fn rederive_oracle<T: Transformation<M>>(
    h: &mut TransformedHamiltonian<M, T>,
    math: &mut M,
    spy: &SpyRc,
    st: &mut State<M, TransformedPoint<M>>,
    x: &[f64],
    key: &str,
    p: &mut Partial,
) {
    let d = x.len();
    let replay = json!({"path": key, "d": d});
    let mut rng = ChaCha8Rng::seed_from_u64(3);
    let z: Vec<f64> = (0..d).map(|i| 0.5 - 0.2 * (i % 4) as f64).collect();
    spy.borrow_mut().gaussian_script.push_back(z.clone());
    if h.initialize_trajectory(math, st, true, &mut rng).is_err() {
        p.violation(format!("C02/initialize-trajectory-failed-after-adaptation/{key}"), String::new(), replay);
        return;
    }
    let Ok(mut fresh) = h.init_state(math, x) else { return };
    spy.borrow_mut().gaussian_script.push_back(z);
    if h.initialize_trajectory(math, &mut fresh, true, &mut rng).is_err() {
        return;
    }
    let view = |s: &State<M, TransformedPoint<M>>, math: &mut M| -> (Vec<f64>, Vec<f64>, f64, Vec<f64>) {
        (
            nv::point_transformed_position(s.point(), math).to_vec(),
            nv::point_transformed_gradient(s.point(), math).to_vec(),
            s.point().energy(),
            math.box_array(s.point().position()).to_vec(),
        )
    };
    let (y, gy, e, _) = view(st, math);
    let (y2, gy2, e2, _) = view(&fresh, math);
    if max_rel(&y, &y2) > 1e-12 || max_rel(&gy, &gy2) > 1e-12 {
        p.violation(
            format!("C02/stale-whitened-coordinates-after-transformation-change/{key}"),
            format!("carried-over state {:?}, fresh state at the same position {:?}", &y[..d.min(3)], &y2[..d.min(3)]),
            replay.clone(),
        );
        return;
    }
    if !mc_core::rel_close(e, e2, 1e-10, 1e-10) || !mc_core::rel_close(st.point().initial_energy(), fresh.point().initial_energy(), 1e-10, 1e-10) {
        p.violation(
            format!("C02/stale-logdet-after-transformation-change/{key}"),
            format!("energy {e} (initial {}) of the carried-over state vs {e2} (initial {}) of a fresh state", st.point().initial_energy(), fresh.point().initial_energy()),
            replay.clone(),
        );
        return;
    }
    *h.step_size_mut() = 0.15;
    let a = h.leapfrog(math, st, Direction::Forward, 1.0, st.point().initial_energy(), f64::INFINITY, &mut NoCollector);
    let b = h.leapfrog(math, &fresh, Direction::Forward, 1.0, fresh.point().initial_energy(), f64::INFINITY, &mut NoCollector);
    if let (LeapfrogResult::Ok(a), LeapfrogResult::Ok(b)) = (a, b) {
        let (_, _, ea, xa) = view(&a, math);
        let (_, _, eb, xb) = view(&b, math);
        if max_rel(&xa, &xb) > 1e-12 || !mc_core::rel_close(ea, eb, 1e-10, 1e-10) {
            p.violation(
                format!("C02/step-from-carried-over-state-differs/{key}"),
                format!("{:?} (energy {ea}) vs {:?} (energy {eb})", &xa[..d.min(3)], &xb[..d.min(3)]),
                replay,
            );
            return;
        }
    }
    p.class(format!("rewhiten-adapt:{}", key.split('/').next().unwrap_or("")));
}

fn check_rewhiten_via_estimators(d: usize, p: &mut Partial) {
    use nuts_rs::verif::{DiagAdaptStrategy, LowRankMassMatrixStrategy, MassMatrixAdaptStrategy, NutsOptions};
    use nuts_rs::DiagAdaptExpSettings;
    let x: Vec<f64> = (0..d).map(|i| 0.3 + 0.2 * i as f64).collect();
    // a window of draws with distinct per-coordinate spread, gradients of N(0, diag(sig^2))
    let sig: Vec<f64> = (0..d).map(|i| 0.4 + 0.45 * (i % 5) as f64).collect();
    let n = 8usize;
    let draws: Vec<Vec<f64>> = (0..n)
        .map(|k| (0..d).map(|i| sig[i] * (((k * 7 + i * 3) % 11) as f64 - 5.0) / 3.0 + 0.1 * (k as f64 - 3.5) * ((i % 2) as f64)).collect())
        .collect();
    let grads: Vec<Vec<f64>> = draws.iter().map(|x| (0..d).map(|i| -x[i] / (sig[i] * sig[i])).collect()).collect();
    for grad_based in [false, true] {
        for via_init in [false, true] {
            let (mut math, spy) = SpyMath::new(Dens::new(Target::std_normal(d)));
            let mut strat = DiagAdaptStrategy::<M>::new(
                &mut math,
                DiagAdaptExpSettings { store_mass_matrix: false, use_grad_based_estimate: grad_based },
                0,
                0,
            );
            let mut mm = nv::diag_mass_matrix_new(&mut math, false);
            let s1: Vec<f64> = (0..d).map(|i| 0.5 + i as f64).collect();
            let m1: Vec<f64> = (0..d).map(|i| 0.1 * i as f64).collect();
            nv::diag_mass_matrix_set(&mut mm, &mut math, &col(&s1), &col(&m1));
            let mut h = TransformedHamiltonian::new(&mut math, mm, KineticEnergyKind::Euclidean);
            p.evaluations += 1;
            let Ok(mut st) = h.init_state(&mut math, &x) else { continue };
            let key = format!("diag-{}-{}/d{d}", if grad_based { "draw-grad" } else { "draw-only" }, if via_init { "init" } else { "adapt" });
            if via_init {
                let mut opts = NutsOptions::default();
                let mut rng = ChaCha8Rng::seed_from_u64(0);
                let pt = st.clone();
                if strat.init(&mut math, &mut opts, h.transformation_mut(), pt.point(), &mut rng).is_err() {
                    continue;
                }
            } else {
                for (xx, g) in draws.iter().zip(&grads) {
                    let c = nv::draw_grad_collector(&mut math, xx, g, true);
                    strat.update_estimators(&mut math, &c);
                }
                if !strat.adapt(&mut math, h.transformation_mut()) {
                    p.count("rewhiten_adapt_did_not_change_the_transformation", 1);
                    continue;
                }
            }
            rederive_oracle(&mut h, &mut math, &spy, &mut st, &x, &key, p);
        }
    }
    // the diagonal transformation an estimate leaves behind is self-consistent, also when the
    // window's scale lies beyond the estimator's clamp range: forward scale x inverse scale = 1,
    // log-determinant = -sum ln(scale), whitened position = (x - mean) / scale
    for grad_based in [false, true] {
        for (sname, base) in [("unit", 1.0), ("tiny", 1e-12), ("huge", 1e12), ("mixed", 0.0)] {
            let (mut math, _spy) = SpyMath::new(Dens::new(Target::std_normal(d)));
            let mut strat = DiagAdaptStrategy::<M>::new(&mut math, DiagAdaptExpSettings { store_mass_matrix: false, use_grad_based_estimate: grad_based }, 0, 0);
            let mut mm = nv::diag_mass_matrix_new(&mut math, false);
            nv::diag_mass_matrix_set(&mut mm, &mut math, &col(&vec![1.0; d]), &col(&vec![0.0; d]));
            let sc: Vec<f64> = (0..d).map(|i| if base == 0.0 { [1e-13, 1.0, 3e11][i % 3] } else { base * (1.0 + 0.5 * (i % 3) as f64) }).collect();
            for (xx, _) in draws.iter().zip(&grads) {
                let x2: Vec<f64> = (0..d).map(|i| xx[i] / sig[i] * sc[i]).collect();
                let g2: Vec<f64> = (0..d).map(|i| -x2[i] / (sc[i] * sc[i])).collect();
                let c = nv::draw_grad_collector(&mut math, &x2, &g2, true);
                strat.update_estimators(&mut math, &c);
            }
            p.evaluations += 1;
            if !strat.adapt(&mut math, &mut mm) {
                p.count("rewhiten_adapt_did_not_change_the_transformation", 1);
                continue;
            }
            let key = format!("diag-{}-{sname}/d{d}", if grad_based { "draw-grad" } else { "draw-only" });
            let replay = json!({"path": key, "d": d});
            let stds = nv::diag_mass_matrix_stds(&mm, &mut math);
            let inv = nv::diag_mass_matrix_inv_stds(&mm, &mut math);
            let mean = nv::diag_mass_matrix_mean(&mm, &mut math);
            let logdet = nv::diag_mass_matrix_logdet(&mm);
            if let Some(i) = (0..d).find(|&i| !((stds[i] * inv[i] - 1.0).abs() <= 1e-12)) {
                p.violation(format!("C02/forward-and-inverse-scale-disagree/{key}"), format!("coordinate {i}: scale {:e} x inverse scale {:e} = {:e}", stds[i], inv[i], stds[i] * inv[i]), replay);
                continue;
            }
            let ld: f64 = -stds.iter().map(|s| s.ln()).sum::<f64>();
            if !mc_core::rel_close(logdet, ld, 1e-10, 1e-10) {
                p.violation(format!("C02/log-determinant-not-of-the-scales/{key}"), format!("{logdet} vs -sum ln(scale) = {ld}"), replay);
                continue;
            }
            let mut h = TransformedHamiltonian::new(&mut math, mm, KineticEnergyKind::Euclidean);
            let xp: Vec<f64> = (0..d).map(|i| mean[i] + sc[i] * (0.3 + 0.1 * i as f64)).collect();
            if let Ok(st) = h.init_state(&mut math, &xp) {
                let y = nv::point_transformed_position(st.point(), &mut math).to_vec();
                let y_ref: Vec<f64> = (0..d).map(|i| (xp[i] - mean[i]) / stds[i]).collect();
                if max_rel(&y, &y_ref) > 1e-9 {
                    p.violation(format!("C02/whitened-position-not-of-the-scales/{key}"), format!("{:?} vs {:?}", &y[..d.min(3)], &y_ref[..d.min(3)]), replay);
                    continue;
                }
            }
            p.class(format!("estimated-diag-consistent:{sname}"));
        }
    }
    if d >= 2 {
        for (name, cutoff) in [("default-cutoff", None), ("cutoff1", Some(1.0))] {
            let (mut math, spy) = SpyMath::new(Dens::new(Target::std_normal(d)));
            let mut settings = LowRankSettings::default();
            if let Some(c) = cutoff {
                settings.eigval_cutoff = c;
            }
            let mut strat = <LowRankMassMatrixStrategy as MassMatrixAdaptStrategy<M>>::new(&mut math, settings, 0, 0);
            let mut mm = LowRankMassMatrix::new(&mut math, settings);
            let pos0 = col(&vec![0.1; d]);
            let grad0 = col(&(0..d).map(|i| -0.5 - 0.1 * i as f64).collect::<Vec<_>>());
            mm.update_from_grad(&mut math, &pos0, &grad0, 1.0, (1e-20, 1e20));
            let mut h = TransformedHamiltonian::new(&mut math, mm, KineticEnergyKind::Euclidean);
            p.evaluations += 1;
            let Ok(mut st) = h.init_state(&mut math, &x) else { continue };
            // correlated window: add a common component to every coordinate
            let cdraws: Vec<Vec<f64>> = draws.iter().enumerate().map(|(k, v)| v.iter().map(|a| a + 0.9 * (k as f64 - 3.5)).collect()).collect();
            for (xx, g) in cdraws.iter().zip(&grads) {
                let c = nv::draw_grad_collector(&mut math, xx, g, true);
                <LowRankMassMatrixStrategy as MassMatrixAdaptStrategy<M>>::update_estimators(&mut strat, &mut math, &c);
            }
            let changed = std::panic::catch_unwind(std::panic::AssertUnwindSafe(|| {
                <LowRankMassMatrixStrategy as MassMatrixAdaptStrategy<M>>::adapt(&strat, &mut math, h.transformation_mut())
            }));
            if !matches!(changed, Ok(true)) {
                p.count("rewhiten_adapt_did_not_change_the_transformation", 1);
                continue;
            }
            rederive_oracle(&mut h, &mut math, &spy, &mut st, &x, &format!("lowrank-adapt-{name}/d{d}"), p);
            // and a second change through the gradient initialiser
            let Ok(mut st2) = h.init_state(&mut math, &x) else { continue };
            h.transformation_mut().update_from_grad(&mut math, &pos0, &grad0, 1.0, (1e-20, 1e20));
            rederive_oracle(&mut h, &mut math, &spy, &mut st2, &x, &format!("lowrank-gradinit-after-{name}/d{d}"), p);
        }
    }
}

pub fn run(tier: Tier, _replay: Option<String>) -> i32 {
    let mut report = Report::new(
        "C02",
        tier,
        "exploration",
        "d in {1,2,3,5,8,17,64} (T: 1..9,15..17,31..33,63..65) x kinds {Euclidean, ExactNormal, Microcanonical} x transformations {diagonal scale patterns 1e-3..1e3 with mean; low-rank ranks 0,1,2,d with orthonormal columns and eigenvalues 0.01..25} x eps in {+-1e-3, +-0.1, +-0.9} x 3 densities x start points: one step vs dense reference in the original space, transformation round trip / gradient pull-back / log-determinant vs dense LU, forward+backward = identity; all {F,B} sequences up to length 4 (T: 7; path independence); finite-difference Jacobian determinant; energy error ratio under eps -> eps/2; ExactNormal conservation; re-whitening after a transformation change. distinct = (kind, transformation family, density, direction) classes",
    );
    report.assume("values outside the alphabet are not covered; tolerances 1e-8..1e-9 relative to the vector norm (references use different operation order)");
    let dims: Vec<usize> = tier.pick(vec![1, 2, 3, 5, 8, 17, 64], vec![1, 2, 3, 4, 5, 6, 7, 8, 9, 15, 16, 17, 31, 32, 33, 63, 64, 65]);
    SEQ_LEN.store(tier.pick(4, 7), std::sync::atomic::Ordering::Relaxed);
    let epss: Vec<f64> = tier.pick(vec![0.1, -0.1, 0.9, -1e-3], vec![1e-3, -1e-3, 0.1, -0.1, 0.9, -0.9]);
    let mut cases = vec![];
    for &d in &dims {
        for kind in [KineticEnergyKind::Euclidean, KineticEnergyKind::ExactNormal, KineticEnergyKind::Microcanonical] {
            if kind == KineticEnergyKind::Microcanonical && d < 2 {
                continue;
            }
            for t in trafos(d, tier) {
                for target_idx in 0..3 {
                    // the quartic lives on O(1) scales only
                    if target_idx == 2 && matches!(&t, Trafo::Diag { stds, .. } if stds.iter().any(|s| *s > 2.5 || *s < 0.2)) {
                        continue;
                    }
                    for &eps in &epss {
                        for pt in 0..tier.pick(1, 4) {
                            cases.push(Case { d, kind, trafo: t.clone(), target_idx, eps, point_idx: pt });
                        }
                    }
                }
            }
        }
    }
    report.bounds = json!({"cases": cases.len(), "dims": dims, "step_sizes": epss});
    mc_core::par_for_each(&cases, |i, c| {
        let mut p = Partial::new();
        let deep = c.d <= tier.pick(5, 9) && c.eps.abs() <= 0.1 && c.point_idx == 0;
        check_case(c, &mut p, deep);
        if i % 997 == 3 {
            p.sample(json!({"d": c.d, "kind": format!("{:?}", c.kind), "transformation": c.trafo.name(), "target": c.target_idx, "eps": c.eps}));
        }
        report.merge(p);
    });
    // flow properties on small systems
    let mut flow = vec![];
    for d in [1usize, 2, 3] {
        for kind in [KineticEnergyKind::Euclidean, KineticEnergyKind::ExactNormal] {
            for t in trafos(d, Tier::Thorough) {
                if matches!(&t, Trafo::Diag { stds, .. } if stds.iter().any(|s| *s > 10.0 || *s < 0.1)) {
                    continue;
                }
                for target_idx in 0..3 {
                    if target_idx == 2 && matches!(&t, Trafo::Diag { stds, .. } if stds.iter().any(|s| *s > 2.5 || *s < 0.2)) {
                        continue;
                    }
                    for eps in [0.05, 0.3] {
                        flow.push((kind, t.clone(), target_idx, eps));
                    }
                }
            }
        }
    }
    mc_core::par_for_each(&flow, |_, (kind, t, ti, eps)| {
        let mut p = Partial::new();
        check_flow_properties(*kind, t, *ti, *eps, &mut p);
        report.merge(p);
    });
    let mut p = Partial::new();
    for d in [1usize, 2, 5, 17, 64] {
        for eps in [1e-3, 0.1, 0.9, -0.5, 2.5] {
            check_exact_normal_conservation(d, eps, &mut p);
        }
        check_rewhiten(d, &mut p);
        check_rewhiten_lowrank(d, &mut p);
        check_rewhiten_via_estimators(d, &mut p);
        for kind in [KineticEnergyKind::Euclidean, KineticEnergyKind::ExactNormal, KineticEnergyKind::Microcanonical] {
            check_gradinit_lowrank(d, kind, &mut p);
        }
    }
    report.merge(p);
    report.finish()
}
