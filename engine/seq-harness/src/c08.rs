//! C08 — mass-matrix adaptation whitens Gaussians exactly and never degenerates.
//!
//! The real estimators (`DiagAdaptStrategy`, `LowRankMassMatrixStrategy`, the gradient-only
//! initialiser) are driven directly through hook H1 with synthetic windows:
//!  * exactness on Gaussians: every 3- and 4-element draw set from a point lattice (diagonal), draw
//!    sets on rotated / rank-k perturbed covariances (low rank), exact gradients;
//!  * degeneracy: every window of draws x gradients over the value alphabet
//!    {0, 1, -1, 1e-300, 1e300, NaN, +inf, -inf}, starting from a valid previous matrix;
//!  * closed loop through the public API: fisher_distance after the last update.

use faer::Col;
use mc_core::{Partial, Report, Tier};
use nuts_rs::verif::{
    self as nv, DiagAdaptStrategy, Hamiltonian, LowRankMassMatrix, LowRankMassMatrixStrategy,
    MassMatrixAdaptStrategy, NutsOptions, TransformedHamiltonian,
};
use nuts_rs::{CpuMath, DiagAdaptExpSettings, KineticEnergyKind, LowRankSettings, Math, SamplerStats};
use rand::rngs::ChaCha8Rng;
use rand::SeedableRng;
use serde_json::json;

use crate::common::models::{Dens, Target};
use crate::common::refmodel::Dense;
use crate::common::runner::*;
use crate::common::stats::*;
use crate::with_settings;

type M = CpuMath<Dens>;

const ALPHA: [f64; 8] = [0.0, 1.0, -1.0, 1e-300, 1e300, f64::NAN, f64::INFINITY, f64::NEG_INFINITY];

fn col(v: &[f64]) -> Col<f64> {
    Col::from_fn(v.len(), |i| v[i])
}

// ---------------------------------------------------------------------------------------------
// diagonal estimator
// ---------------------------------------------------------------------------------------------

struct DiagSys {
    math: M,
    strat: DiagAdaptStrategy<M>,
    mm: nv::DiagMassMatrix<M>,
}

fn diag_sys(d: usize, grad_based: bool, prev_stds: &[f64], prev_mean: &[f64]) -> DiagSys {
    let mut math = CpuMath::new(Dens::new(Target::std_normal(d)));
    let strat = DiagAdaptStrategy::<M>::new(
        &mut math,
        DiagAdaptExpSettings { store_mass_matrix: false, use_grad_based_estimate: grad_based },
        0,
        0,
    );
    let mut mm = nv::diag_mass_matrix_new(&mut math, false);
    nv::diag_mass_matrix_set(&mut mm, &mut math, &col(prev_stds), &col(prev_mean));
    DiagSys { math, strat, mm }
}

fn feed_diag(s: &mut DiagSys, draws: &[Vec<f64>], grads: &[Vec<f64>]) -> bool {
    for (x, g) in draws.iter().zip(grads) {
        let c = nv::draw_grad_collector(&mut s.math, x, g, true);
        s.strat.update_estimators(&mut s.math, &c);
    }
    s.strat.adapt(&mut s.math, &mut s.mm)
}

fn diag_exactness(d: usize, cond: f64, p: &mut Partial, tier: Tier) {
    diag_exactness_scaled(d, cond, 0.37, p, tier)
}

/// `base`: the smallest standard deviation (all of them tiny or all huge in high dimension makes
/// the product of the scales leave the f64 range although every scale and the log-determinant
/// are perfectly representable)
fn diag_exactness_scaled(d: usize, cond: f64, base: f64, p: &mut Partial, tier: Tier) {
    // sigma spread over the condition number, non-zero means
    let sigma: Vec<f64> = (0..d).map(|i| cond.powf(0.5 * i as f64 / (d.max(2) - 1) as f64) * base).collect();
    // (means proportional to the overall scale, so that the draws can represent the spread)
    let mu: Vec<f64> = (0..d).map(|i| (1.5 - 0.8 * i as f64) * (base / 0.37)).collect();
    // lattice of 6 points whose coordinates are pairwise different in every dimension
    let ts: Vec<Vec<f64>> = (0..6)
        .map(|k| (0..d).map(|i| ((k as f64 + 1.0) * (0.83 + 0.29 * i as f64)).sin() * 1.7 + 0.11 * k as f64).collect())
        .collect();
    let pts: Vec<Vec<f64>> = ts.iter().map(|t| (0..d).map(|i| mu[i] + sigma[i] * t[i]).collect()).collect();
    let grads: Vec<Vec<f64>> = pts.iter().map(|x| (0..d).map(|i| -(x[i] - mu[i]) / (sigma[i] * sigma[i])).collect()).collect();
    // all multisets of size 3 and 4 with >= 3 distinct points
    let mut sets: Vec<Vec<usize>> = vec![];
    for a in 0..6 {
        for b in a..6 {
            for c in b..6 {
                let s3 = vec![a, b, c];
                if a != b && b != c {
                    sets.push(s3.clone());
                }
                for e in c..6 {
                    let mut s4 = s3.clone();
                    s4.push(e);
                    let mut dd = s4.clone();
                    dd.dedup();
                    if dd.len() >= 3 {
                        sets.push(s4);
                    }
                }
            }
        }
    }
    if tier == Tier::Quick && d > 3 {
        sets.truncate(40);
    }
    for set in sets {
        let mut s = diag_sys(d, true, &vec![1.0; d], &vec![0.0; d]);
        let dr: Vec<Vec<f64>> = set.iter().map(|k| pts[*k].clone()).collect();
        let gr: Vec<Vec<f64>> = set.iter().map(|k| grads[*k].clone()).collect();
        let changed = feed_diag(&mut s, &dr, &gr);
        p.evaluations += 1;
        let stds = nv::diag_mass_matrix_stds(&s.mm, &mut s.math);
        let mean = nv::diag_mass_matrix_mean(&s.mm, &mut s.math);
        let key = format!("diag-exact/d{d}/cond{cond:e}{}", if base == 0.37 { String::new() } else { format!("/base{base:e}") });
        // log-determinant of the transformation y = (x - mu) / sigma
        let logdet = nv::diag_mass_matrix_logdet(&s.mm);
        let want_logdet: f64 = -sigma.iter().map(|t| t.ln()).sum::<f64>();
        if !(logdet.is_finite() && mc_core::rel_close(logdet, want_logdet, 1e-7, 1e-7)) {
            p.violation(
                format!("C08/log-determinant-not-that-of-the-scales/{key}"),
                format!("draw set {set:?}: logdet {logdet}, -sum ln sigma = {want_logdet}"),
                json!({"d": d, "cond": cond, "base": base, "set": set}),
            );
            return;
        }
        let ok = changed
            && (0..d).all(|i| mc_core::rel_close(stds[i], sigma[i], 1e-8, 0.0))
            && (0..d).all(|i| mc_core::rel_close(mean[i], mu[i], 1e-7, 1e-9 * sigma[i]));
        if !ok {
            p.violation(
                format!("C08/diagonal-adaptation-not-exact-on-gaussian/{key}"),
                format!("draw set {set:?}: stds {:?} (true {:?}), mean {:?} (true {:?}), changed={changed}", &stds[..], sigma, &mean[..], mu),
                json!({"d": d, "cond": cond, "set": set}),
            );
            return;
        }
        p.class(format!("diag-exact:d{d}:n{}", set.len()));
    }
}

/// One strategy object across three windows: W1 holds one explored alphabet value (finite junk,
/// NaN, +-inf) in a draw or a gradient, W2 and W3 are draws of a Gaussian; after two switches the
/// foreground holds W2 + W3 only, so the estimate must be that Gaussian's, exactly.
fn diag_history(grad_based: bool, p: &mut Partial) {
    let d = 3usize;
    let sigma = [0.001, 1.0, 40.0];
    let mu = [1.5, -0.7, 0.2];
    let ts: Vec<Vec<f64>> = (0..6)
        .map(|k| (0..d).map(|i| ((k as f64 + 1.0) * (0.83 + 0.29 * i as f64)).sin() * 1.7 + 0.11 * k as f64).collect())
        .collect();
    let pts: Vec<Vec<f64>> = ts.iter().map(|t| (0..d).map(|i| mu[i] + sigma[i] * t[i]).collect()).collect();
    let grads: Vec<Vec<f64>> = pts.iter().map(|x| (0..d).map(|i| -(x[i] - mu[i]) / (sigma[i] * sigma[i])).collect()).collect();
    for v in ALPHA.iter().copied().chain([7.5e3, -2.5e-4]) {
        for j in 0..3usize {
            for coord in 0..d {
                for in_grad in [false, true] {
                    let mut s = diag_sys(d, grad_based, &vec![1.0; d], &vec![0.0; d]);
                    let replay = json!({"value": format!("{v:e}"), "draw": j, "coordinate": coord, "in_gradient": in_grad, "grad_based": grad_based});
                    let key = format!("diag-history/{}/{}{j}[{coord}]={v:e}", if grad_based { "draw-grad" } else { "draw-only" }, if in_grad { "grad" } else { "draw" });
                    p.evaluations += 1;
                    let r = std::panic::catch_unwind(std::panic::AssertUnwindSafe(|| {
                        for k in 0..3 {
                            let mut x = pts[k + 1].clone();
                            let mut g = grads[k + 1].clone();
                            if k == j {
                                if in_grad { g[coord] = v } else { x[coord] = v }
                            }
                            let c = nv::draw_grad_collector(&mut s.math, &x, &g, true);
                            s.strat.update_estimators(&mut s.math, &c);
                        }
                        s.strat.switch(&mut s.math);
                        for k in 0..3 {
                            let c = nv::draw_grad_collector(&mut s.math, &pts[k], &grads[k], true);
                            s.strat.update_estimators(&mut s.math, &c);
                        }
                        s.strat.switch(&mut s.math);
                        for k in 3..6 {
                            let c = nv::draw_grad_collector(&mut s.math, &pts[k], &grads[k], true);
                            s.strat.update_estimators(&mut s.math, &c);
                        }
                        s.strat.adapt(&mut s.math, &mut s.mm)
                    }));
                    let Ok(changed) = r else {
                        p.violation(format!("C08/estimator-panicked/{key}"), String::new(), replay);
                        continue;
                    };
                    let stds = nv::diag_mass_matrix_stds(&s.mm, &mut s.math);
                    // reference: a fresh strategy that only ever saw the two clean windows (and, for
                    // the draw+gradient estimate, the Gaussian's own scales)
                    let want: Vec<f64> = {
                        let mut f = diag_sys(d, grad_based, &vec![1.0; d], &vec![0.0; d]);
                        let _ = feed_diag(&mut f, &pts, &grads);
                        nv::diag_mass_matrix_stds(&f.mm, &mut f.math).to_vec()
                    };
                    if grad_based && !(0..d).all(|i| mc_core::rel_close(want[i], sigma[i], 1e-8, 0.0)) {
                        p.violation(format!("C08/diagonal-adaptation-not-exact-on-gaussian/{key}"), format!("fresh strategy: {want:?} vs {sigma:?}"), replay);
                        continue;
                    }
                    if !(changed && (0..d).all(|i| mc_core::rel_close(stds[i], want[i], 1e-8, 0.0))) {
                        p.violation(
                            format!("C08/estimate-depends-on-a-window-that-was-switched-out/{key}"),
                            format!("stds {:?} but the two windows in the foreground give {want:?} (changed={changed})", &stds[..]),
                            replay,
                        );
                        continue;
                    }
                    p.class(format!("diag-history:{grad_based}"));
                }
            }
        }
    }
}

fn diag_degeneracy(p: &mut Partial, grad_based: bool, tier: Tier) {
    // dim 2: coordinate 0 gets the explored window, coordinate 1 a valid Gaussian window
    let prev_stds = [0.7, 1.9];
    let prev_mean = [0.25, -0.5];
    let good_x = [0.3, -1.1, 2.0];
    let sig1 = 1.6;
    let n = ALPHA.len();
    let len = 3usize;
    let total = n.pow(2 * len as u32);
    let stride = if tier == Tier::Quick { 1 } else { 1 };
    let mut idx = 0usize;
    while idx < total {
        let mut k = idx;
        let mut vals = [0.0f64; 6];
        for v in vals.iter_mut() {
            *v = ALPHA[k % n];
            k /= n;
        }
        idx += stride;
        let draws: Vec<Vec<f64>> = (0..len).map(|j| vec![vals[j], good_x[j]]).collect();
        let grads: Vec<Vec<f64>> = (0..len).map(|j| vec![vals[len + j], -good_x[j] / (sig1 * sig1)]).collect();
        let mut s = diag_sys(2, grad_based, &prev_stds, &prev_mean);
        let r = std::panic::catch_unwind(std::panic::AssertUnwindSafe(|| feed_diag(&mut s, &draws, &grads)));
        p.evaluations += 1;
        let key = format!("diag-window/gradbased{grad_based}");
        let replay = json!({"draws_coord0": &vals[..3].iter().map(|v| format!("{v:e}")).collect::<Vec<_>>(), "grads_coord0": &vals[3..].iter().map(|v| format!("{v:e}")).collect::<Vec<_>>(), "grad_based": grad_based});
        if r.is_err() {
            p.violation(format!("C08/estimator-panicked/{key}"), String::new(), replay);
            continue;
        }
        let stds = nv::diag_mass_matrix_stds(&s.mm, &mut s.math);
        let inv = nv::diag_mass_matrix_inv_stds(&s.mm, &mut s.math);
        let mean = nv::diag_mass_matrix_mean(&s.mm, &mut s.math);
        let logdet = nv::diag_mass_matrix_logdet(&s.mm);
        let finite_pos = |x: f64| x.is_finite() && x > 0.0;
        if !(finite_pos(stds[0]) && finite_pos(stds[1]) && finite_pos(inv[0]) && finite_pos(inv[1]) && logdet.is_finite()) {
            p.violation(
                format!("C08/scale-degenerate/{key}"),
                format!("stds {:?} inv_stds {:?} logdet {logdet}", &stds[..], &inv[..]),
                replay,
            );
            continue;
        }
        // coordinate 1 (valid window) is exact when the gradient-based estimate is used
        if grad_based && !(mc_core::rel_close(stds[1], sig1, 1e-9, 0.0)) {
            p.violation(format!("C08/valid-coordinate-disturbed/{key}"), format!("stds[1] = {}", stds[1]), replay);
            continue;
        }
        // invalid window for coordinate 0 => previous scale stays bit-identical
        let w: Vec<f64> = vals[..3].to_vec();
        let g: Vec<f64> = vals[3..].to_vec();
        // the draw-only estimator never looks at the gradients
        let all_finite = if grad_based { w.iter().chain(g.iter()).all(|v| v.is_finite()) } else { w.iter().all(|v| v.is_finite()) };
        let var = |v: &[f64]| {
            let m = v.iter().sum::<f64>() / v.len() as f64;
            v.iter().map(|x| (x - m) * (x - m)).sum::<f64>()
        };
        let invalid = !all_finite || var(&w) == 0.0 || (grad_based && var(&g) == 0.0) || !var(&w).is_finite() || (grad_based && !var(&g).is_finite());
        if invalid && !all_finite {
            // a non-finite entry can never yield a valid estimate
            if stds[0].to_bits() != prev_stds[0].to_bits() {
                p.violation(
                    format!("C08/invalid-estimate-replaced-previous-value/{key}"),
                    format!("stds[0] = {} (previous {})", stds[0], prev_stds[0]),
                    replay,
                );
                continue;
            }
        }
        if !mean[0].is_finite() || !mean[1].is_finite() {
            // the property speaks about scales and the log-determinant only: counted, not judged
            p.count("windows_leaving_a_non_finite_transformation_mean", 1);
        }
        p.class(format!("diag-window:{grad_based}:{}", if invalid { "invalid" } else { "valid" }));
    }
}

fn diag_init_degeneracy(p: &mut Partial) {
    // gradient-only initialiser: every alphabet value for the gradient / position entry
    for g0 in ALPHA {
        for x0 in ALPHA {
            let mut math = CpuMath::new(Dens::new(Target::std_normal(2)));
            let mut strat = DiagAdaptStrategy::<M>::new(&mut math, DiagAdaptExpSettings::default(), 0, 0);
            let mut mm = nv::diag_mass_matrix_new(&mut math, false);
            nv::diag_mass_matrix_set(&mut mm, &mut math, &col(&[0.7, 1.9]), &col(&[0.0, 0.0]));
            let mut h = TransformedHamiltonian::new(&mut math, mm, KineticEnergyKind::Euclidean);
            let Ok(mut st) = h.init_state(&mut math, &[0.4, -0.3]) else { continue };
            // overwrite position / gradient of the point with the explored values
            {
                let pt = st.try_point_mut().unwrap();
                nv::point_set_position_gradient(pt, &mut math, &[x0, 0.4], &[g0, -0.3]);
            }
            let mut opts = NutsOptions::default();
            let mut rng = ChaCha8Rng::seed_from_u64(0);
            let r = std::panic::catch_unwind(std::panic::AssertUnwindSafe(|| {
                strat.init(&mut math, &mut opts, h.transformation_mut(), st.point(), &mut rng)
            }));
            p.evaluations += 1;
            let replay = json!({"gradient0": format!("{g0:e}"), "position0": format!("{x0:e}")});
            if r.is_err() {
                p.violation("C08/initialiser-panicked/grad-init".to_string(), String::new(), replay);
                continue;
            }
            let stds = nv::diag_mass_matrix_stds(h.transformation_mut(), &mut math);
            let inv = nv::diag_mass_matrix_inv_stds(h.transformation_mut(), &mut math);
            let logdet = nv::diag_mass_matrix_logdet(h.transformation_mut());
            if !(stds.iter().all(|s| s.is_finite() && *s > 0.0) && inv.iter().all(|s| s.is_finite() && *s > 0.0) && logdet.is_finite()) {
                p.violation(
                    "C08/scale-degenerate/grad-init".to_string(),
                    format!("stds {:?} inv {:?} logdet {logdet}", &stds[..], &inv[..]),
                    replay,
                );
                continue;
            }
            p.class("diag-init".to_string());
        }
    }
}

// ---------------------------------------------------------------------------------------------
// low-rank estimator
// ---------------------------------------------------------------------------------------------

fn lowrank_feed(d: usize, draws: &[Vec<f64>], grads: &[Vec<f64>], settings: LowRankSettings) -> Option<(M, TransformedHamiltonian<M, LowRankMassMatrix<M>>, bool)> {
    let mut math = CpuMath::new(Dens::new(Target::std_normal(d)));
    let mut strat = <LowRankMassMatrixStrategy as MassMatrixAdaptStrategy<M>>::new(&mut math, settings, 0, 0);
    let mut mm = LowRankMassMatrix::new(&mut math, settings);
    // valid previous matrix
    let pos0 = col(&vec![0.1; d]);
    let grad0 = col(&(0..d).map(|i| -0.5 - 0.1 * i as f64).collect::<Vec<_>>());
    mm.update_from_grad(&mut math, &pos0, &grad0, 1.0, (1e-20, 1e20));
    for (x, g) in draws.iter().zip(grads) {
        let c = nv::draw_grad_collector(&mut math, x, g, true);
        <LowRankMassMatrixStrategy as MassMatrixAdaptStrategy<M>>::update_estimators(&mut strat, &mut math, &c);
    }
    let changed = std::panic::catch_unwind(std::panic::AssertUnwindSafe(|| {
        <LowRankMassMatrixStrategy as MassMatrixAdaptStrategy<M>>::adapt(&strat, &mut math, &mut mm)
    }))
    .ok()?;
    let h = TransformedHamiltonian::new(&mut math, mm, KineticEnergyKind::Euclidean);
    Some((math, h, changed))
}

fn lowrank_exactness(d: usize, k: usize, cond: f64, p: &mut Partial) {
    // the same covariance with the mean moved away from the origin by `shift` standard deviations
    // per coordinate: recovery is exact "for all means", so the whitening error must not depend on
    // the shift beyond rounding (eps * shift); a one-pass variance (eps * shift^2) does
    let mut base: Option<f64> = None;
    for shift in [0.0, 1e3, 2.5e6] {
        let Some(w) = lowrank_exactness_shifted(d, k, cond, shift, p) else { return };
        match base {
            None => base = Some(w),
            Some(b) => {
                if !(w <= b + 1e-6) {
                    p.violation(
                        format!("C08/low-rank-whitening-depends-on-the-mean/lowrank-exact/d{d}/rank{k}/cond{cond:e}/shift{shift:e}"),
                        format!("max |y + grad_y| / |y| = {w:e} with the mean {shift:e} standard deviations from the origin, {b:e} with the mean near the origin"),
                        json!({"d": d, "rank": k, "cond": cond, "shift": shift}),
                    );
                    return;
                }
            }
        }
    }
}

fn lowrank_exactness_shifted(d: usize, k: usize, cond: f64, shift: f64, p: &mut Partial) -> Option<f64> {
    // covariance = D (I + U (L - I) U^T) D with k eigenvalues far from 1
    let dsc: Vec<f64> = (0..d).map(|i| cond.powf(0.25 * i as f64 / (d.max(2) - 1) as f64) * 0.6).collect();
    let u = crate::c02::orthonormal(d, k);
    let lam: Vec<f64> = (0..k).map(|j| if j % 2 == 0 { 9.0 + 4.0 * j as f64 } else { 1.0 / (6.0 + j as f64) }).collect();
    let mut inner = Dense::identity(d);
    let mut inner_inv = Dense::identity(d);
    for j in 0..k {
        for a in 0..d {
            for b in 0..d {
                inner.a[a * d + b] += u[j][a] * (lam[j] - 1.0) * u[j][b];
                inner_inv.a[a * d + b] += u[j][a] * (1.0 / lam[j] - 1.0) * u[j][b];
            }
        }
    }
    let dm = Dense::diag(&dsc);
    let dinv = Dense::diag(&dsc.iter().map(|x| 1.0 / x).collect::<Vec<_>>());
    let prec = dinv.mul(&inner_inv).mul(&dinv);
    let mu: Vec<f64> = (0..d).map(|i| 0.4 * i as f64 - 0.7 + shift * dsc[i] * if i % 2 == 0 { 1.0 } else { -1.0 }).collect();
    // draws: x = mu + D sqrt(inner) t  — any point set works, the estimator only needs x and grad
    let n = 2 * d + 3;
    let pts: Vec<Vec<f64>> = (0..n)
        .map(|m| {
            let t: Vec<f64> = (0..d).map(|i| ((m as f64 + 1.0) * (0.71 + 0.23 * i as f64)).sin() * 1.4 + 0.07 * (m as f64 - 3.0)).collect();
            let z = inner.mul_vec(&t);
            (0..d).map(|i| mu[i] + dsc[i] * z[i]).collect()
        })
        .collect();
    let grads: Vec<Vec<f64>> = pts
        .iter()
        .map(|x| {
            let diff: Vec<f64> = (0..d).map(|i| x[i] - mu[i]).collect();
            prec.mul_vec(&diff).iter().map(|v| -v).collect()
        })
        .collect();
    let _ = dm;
    p.evaluations += 1;
    let key = format!("lowrank-exact/d{d}/rank{k}/cond{cond:e}/shift{shift:e}");
    let replay = json!({"d": d, "rank": k, "cond": cond, "shift": shift});
    // every eigen-direction of the rescaled covariance is kept (cut-off 1): the structure of any
    // covariance then "fits the rank"; with the default cut-off only rank 0 is exactly representable
    let settings = if k == 0 { LowRankSettings::default() } else { LowRankSettings { eigval_cutoff: 1.0, ..LowRankSettings::default() } };
    let Some((mut math, mut h, changed)) = lowrank_feed(d, &pts, &grads, settings) else {
        p.violation(format!("C08/estimator-panicked/{key}"), String::new(), replay);
        return None;
    };
    if !changed {
        p.violation(format!("C08/low-rank-adaptation-did-not-update/{key}"), String::new(), replay);
        return None;
    }
    // in the whitened space of the adapted transformation: gradient = -position (for the true density)
    let target = Target::DenseNormal { mu: mu.clone(), prec: prec.a.clone() };
    let mut worst: f64 = 0.0;
    for probe in 0..3 {
        let x: Vec<f64> = (0..d).map(|i| mu[i] + dsc[i] * ((probe as f64 + 1.3) * (i as f64 + 0.9)).cos()).collect();
        let mut g = vec![0.0; d];
        target.logp(&x, &mut g);
        // whiten with the adapted transformation: use a state of a std-normal density and replace
        // its gradient by the true one through the transformation's own pull-back
        let Ok(mut st) = h.init_state(&mut math, &x) else { continue };
        {
            let pt = st.try_point_mut().unwrap();
            nv::point_set_position_gradient(pt, &mut math, &x, &g);
        }
        let _ = &mut st;
        let mut yv = math.new_array();
        let mut gyv = math.new_array();
        use nuts_rs::verif::Transformation;
        if h.transformation_mut().inv_transform_normalize(&mut math, &col(&x), &col(&g), &mut yv, &mut gyv).is_err() {
            continue;
        }
        let y = math.box_array(&yv);
        let gy = math.box_array(&gyv);
        for i in 0..d {
            let scale = y.iter().fold(1e-3f64, |m, v| m.max(v.abs()));
            worst = worst.max((y[i] + gy[i]).abs() / scale);
        }
    }
    if !(worst < 2e-3) {
        p.violation(
            format!("C08/low-rank-adaptation-does-not-whiten-gaussian/{key}"),
            format!("max |y + grad_y| / |y| = {worst:e} on probe points"),
            replay,
        );
        return None;
    }
    p.count(&format!("lowrank_whitening_error_below_1e-{}", (-worst.log10()).floor().max(0.0) as i64), 1);
    p.class(format!("lowrank-exact:d{d}:rank{k}:shift{shift:e}"));
    Some(worst)
}

/// small estimation windows (3 <= n draws, 2n <= d): the low-rank estimate is built inside the
/// span of the window's draws and gradients; on a Gaussian whose covariance is a rank-k update of
/// a diagonal one the draws of the window itself must be whitened (gradient = -position)
fn lowrank_small_window(d: usize, n: usize, k: usize, cond: f64, p: &mut Partial) {
    let dsc: Vec<f64> = (0..d).map(|i| cond.powf(0.25 * i as f64 / (d.max(2) - 1) as f64) * 0.6).collect();
    let u = crate::c02::orthonormal(d, k);
    let lam: Vec<f64> = (0..k).map(|j| if j % 2 == 0 { 9.0 + 4.0 * j as f64 } else { 1.0 / (6.0 + j as f64) }).collect();
    let mut inner = Dense::identity(d);
    let mut inner_inv = Dense::identity(d);
    for j in 0..k {
        for a in 0..d {
            for b in 0..d {
                inner.a[a * d + b] += u[j][a] * (lam[j] - 1.0) * u[j][b];
                inner_inv.a[a * d + b] += u[j][a] * (1.0 / lam[j] - 1.0) * u[j][b];
            }
        }
    }
    let dinv = Dense::diag(&dsc.iter().map(|x| 1.0 / x).collect::<Vec<_>>());
    let prec = dinv.mul(&inner_inv).mul(&dinv);
    let mu: Vec<f64> = (0..d).map(|i| 0.4 * i as f64 - 0.7).collect();
    let pts: Vec<Vec<f64>> = (0..n)
        .map(|m| {
            let t: Vec<f64> = (0..d).map(|i| ((m as f64 + 1.0) * (0.71 + 0.23 * i as f64)).sin() * 1.4 + 0.07 * (m as f64 - 3.0)).collect();
            let z = inner.mul_vec(&t);
            (0..d).map(|i| mu[i] + dsc[i] * z[i]).collect()
        })
        .collect();
    let grads: Vec<Vec<f64>> = pts.iter().map(|x| { let diff: Vec<f64> = (0..d).map(|i| x[i] - mu[i]).collect(); prec.mul_vec(&diff).iter().map(|v| -v).collect() }).collect();
    p.evaluations += 1;
    let key = format!("lowrank-small-window/d{d}/n{n}/rank{k}/cond{cond:e}");
    let replay = json!({"d": d, "n": n, "rank": k, "cond": cond});
    let settings = LowRankSettings { eigval_cutoff: 1.0, ..LowRankSettings::default() };
    let Some((mut math, mut h, changed)) = lowrank_feed(d, &pts, &grads, settings) else {
        p.violation(format!("C08/estimator-panicked/{key}"), String::new(), replay);
        return;
    };
    if !changed {
        p.count("small_windows_without_update", 1);
        return;
    }
    let mut worst: f64 = 0.0;
    for (x, g) in pts.iter().zip(&grads) {
        let mut yv = math.new_array();
        let mut gyv = math.new_array();
        use nuts_rs::verif::Transformation;
        if h.transformation_mut().inv_transform_normalize(&mut math, &col(x), &col(g), &mut yv, &mut gyv).is_err() {
            continue;
        }
        let y = math.box_array(&yv);
        let gy = math.box_array(&gyv);
        let scale = y.iter().fold(1e-3f64, |m, v| m.max(v.abs()));
        for i in 0..d {
            worst = worst.max((y[i] + gy[i]).abs() / scale);
        }
    }
    p.count(&format!("small_window_error_below_1e-{}", (-worst.max(1e-300).log10()).floor().max(0.0) as i64), 1);
    if !(worst < 2e-3) {
        p.violation(format!("C08/low-rank-small-window-does-not-whiten-its-own-draws/{key}"), format!("max |y + grad_y| / |y| = {worst:e} over the {n} draws of the window"), replay);
        return;
    }
    p.class(format!("lowrank-small-window:n{n}:rank{k}"));
}

/// the DEFAULT eigenvalue cut-off (2): directions whose rescaled eigenvalue lies outside
/// (1/2, 2) - stretched AND compressed ones - are kept. Targets: covariance I + c * 11^T
/// (one stretched direction) and its inverse structure I - c' * 11^T (one compressed direction),
/// strongly correlated pairs of either sign; exact draws and gradients, 2d + 3 draws.
fn lowrank_default_cutoff(d: usize, c: f64, compressed: bool, p: &mut Partial) {
    // covariance S = I + c 11^T (or, compressed: S^-1 = I + c 11^T)
    let w = c / (1.0 + c * d as f64);
    let plus = |i: usize, j: usize| if i == j { 1.0 + c } else { c };
    let minus = |i: usize, j: usize| if i == j { 1.0 - w } else { -w };
    let (cov, prec): (Vec<f64>, Vec<f64>) = if compressed {
        ((0..d * d).map(|k| minus(k / d, k % d)).collect(), (0..d * d).map(|k| plus(k / d, k % d)).collect())
    } else {
        ((0..d * d).map(|k| plus(k / d, k % d)).collect(), (0..d * d).map(|k| minus(k / d, k % d)).collect())
    };
    let covm = Dense { d, a: cov };
    let precm = Dense { d, a: prec.clone() };
    let mu: Vec<f64> = (0..d).map(|i| 0.3 * i as f64 - 0.5).collect();
    let n = 2 * d + 3;
    let pts: Vec<Vec<f64>> = (0..n)
        .map(|m| {
            let t: Vec<f64> = (0..d).map(|i| ((m as f64 + 1.0) * (0.71 + 0.23 * i as f64)).sin() * 1.4 + 0.07 * (m as f64 - 3.0)).collect();
            let z = covm.mul_vec(&t);
            (0..d).map(|i| mu[i] + z[i]).collect()
        })
        .collect();
    let grads: Vec<Vec<f64>> = pts.iter().map(|x| { let diff: Vec<f64> = (0..d).map(|i| x[i] - mu[i]).collect(); precm.mul_vec(&diff).iter().map(|v| -v).collect() }).collect();
    p.evaluations += 1;
    let key = format!("lowrank-default-cutoff/d{d}/c{c}/{}", if compressed { "compressed" } else { "stretched" });
    let replay = json!({"d": d, "c": c, "compressed": compressed});
    let Some((mut math, mut h, changed)) = lowrank_feed(d, &pts, &grads, LowRankSettings::default()) else {
        p.violation(format!("C08/estimator-panicked/{key}"), String::new(), replay);
        return;
    };
    if !changed {
        p.violation(format!("C08/low-rank-adaptation-did-not-update/{key}"), String::new(), replay);
        return;
    }
    let target = Target::DenseNormal { mu: mu.clone(), prec };
    let mut worst: f64 = 0.0;
    for probe in 0..3 {
        let x: Vec<f64> = (0..d).map(|i| mu[i] + ((probe as f64 + 1.3) * (i as f64 + 0.9)).cos()).collect();
        let mut g = vec![0.0; d];
        target.logp(&x, &mut g);
        let mut yv = math.new_array();
        let mut gyv = math.new_array();
        use nuts_rs::verif::Transformation;
        if h.transformation_mut().inv_transform_normalize(&mut math, &col(&x), &col(&g), &mut yv, &mut gyv).is_err() {
            continue;
        }
        let y = math.box_array(&yv);
        let gy = math.box_array(&gyv);
        let scale = y.iter().fold(1e-3f64, |m, v| m.max(v.abs()));
        for i in 0..d {
            worst = worst.max((y[i] + gy[i]).abs() / scale);
        }
    }
    p.count(&format!("default_cutoff_error_below_1e-{}", (-worst.max(1e-300).log10()).floor().max(0.0) as i64), 1);
    if !(worst < 2e-3) {
        p.violation(format!("C08/low-rank-adaptation-does-not-whiten-gaussian/{key}"), format!("max |y + grad_y| / |y| = {worst:e} on probe points (default eigenvalue cut-off)"), replay);
        return;
    }
    p.class(format!("lowrank-default-cutoff:{}", if compressed { "compressed" } else { "stretched" }));
}

/// Windows of an update HISTORY on one matrix (default eigenvalue cut-off). `Stretched(c, sign)`:
/// covariance I + c vv^T with v = (1, sign, 1, sign, ..) - keeps one eigenvalue; `Axis(k)`:
/// covariance diag(s^2) - keeps none. Both are represented exactly by the estimator.
#[derive(Clone, Copy, Debug)]
enum Win {
    Stretched(f64, f64),
    Axis(usize),
}

fn window_of(d: usize, w: Win) -> (Vec<f64>, Dense, Dense) {
    let mu: Vec<f64> = (0..d).map(|i| 0.3 * i as f64 - 0.5).collect();
    match w {
        Win::Stretched(c, sign) => {
            let v: Vec<f64> = (0..d).map(|i| if i % 2 == 0 { 1.0 } else { sign }).collect();
            let wgt = c / (1.0 + c * d as f64);
            let cov = Dense { d, a: (0..d * d).map(|k| (if k / d == k % d { 1.0 } else { 0.0 }) + c * v[k / d] * v[k % d]).collect() };
            let prec = Dense { d, a: (0..d * d).map(|k| (if k / d == k % d { 1.0 } else { 0.0 }) - wgt * v[k / d] * v[k % d]).collect() };
            (mu, cov, prec)
        }
        Win::Axis(kind) => {
            let sc: Vec<f64> = (0..d).map(|i| match kind { 0 => 1.0, 1 => 0.3 + 0.6 * i as f64, _ => 10f64.powf(i as f64 - 2.0) }).collect();
            (mu, Dense::diag(&sc.iter().map(|s| s * s).collect::<Vec<_>>()), Dense::diag(&sc.iter().map(|s| 1.0 / (s * s)).collect::<Vec<_>>()))
        }
    }
}

/// every update leaves a transformation that whitens the Gaussian of the window it was computed
/// from, whatever the matrix held before (rank going up, down to zero, and changing direction)
fn lowrank_history(d: usize, seq: &[Win], p: &mut Partial) {
    let key = format!("lowrank-history/d{d}/{seq:?}");
    let replay = json!({"d": d, "windows": format!("{seq:?}")});
    let settings = LowRankSettings::default();
    let mut math = CpuMath::new(Dens::new(Target::std_normal(d)));
    let mut mm = LowRankMassMatrix::new(&mut math, settings);
    let pos0 = col(&vec![0.1; d]);
    let grad0 = col(&(0..d).map(|i| -0.5 - 0.1 * i as f64).collect::<Vec<_>>());
    mm.update_from_grad(&mut math, &pos0, &grad0, 1.0, (1e-20, 1e20));
    let mut h = TransformedHamiltonian::new(&mut math, mm, KineticEnergyKind::Euclidean);
    p.evaluations += 1;
    let mut ranks = vec![];
    for (wi, w) in seq.iter().enumerate() {
        let (mu, cov, prec) = window_of(d, *w);
        let n = 2 * d + 3;
        let pts: Vec<Vec<f64>> = (0..n)
            .map(|m| {
                let t: Vec<f64> = (0..d).map(|i| ((m as f64 + 1.0) * (0.71 + 0.23 * i as f64)).sin() * 1.4 + 0.07 * (m as f64 - 3.0)).collect();
                let z = cov.mul_vec(&t);
                (0..d).map(|i| mu[i] + z[i]).collect()
            })
            .collect();
        // a fresh estimator per window = a switch that discarded the previous window
        let mut strat = <LowRankMassMatrixStrategy as MassMatrixAdaptStrategy<M>>::new(&mut math, settings, 0, 0);
        for x in &pts {
            let diff: Vec<f64> = (0..d).map(|i| x[i] - mu[i]).collect();
            let g: Vec<f64> = prec.mul_vec(&diff).iter().map(|v| -v).collect();
            let c = nv::draw_grad_collector(&mut math, x, &g, true);
            <LowRankMassMatrixStrategy as MassMatrixAdaptStrategy<M>>::update_estimators(&mut strat, &mut math, &c);
        }
        let changed = std::panic::catch_unwind(std::panic::AssertUnwindSafe(|| {
            <LowRankMassMatrixStrategy as MassMatrixAdaptStrategy<M>>::adapt(&strat, &mut math, h.transformation_mut())
        }));
        match changed {
            Ok(true) => {}
            Ok(false) => {
                p.violation(format!("C08/low-rank-adaptation-did-not-update/{key}"), format!("window {wi}"), replay);
                return;
            }
            Err(_) => {
                p.violation(format!("C08/estimator-panicked/{key}"), format!("window {wi}"), replay);
                return;
            }
        }
        let target = Target::DenseNormal { mu: mu.clone(), prec: prec.a.clone() };
        let mut worst: f64 = 0.0;
        for probe in 0..3 {
            let x: Vec<f64> = (0..d).map(|i| mu[i] + ((probe as f64 + 1.3) * (i as f64 + 0.9)).cos()).collect();
            let mut g = vec![0.0; d];
            target.logp(&x, &mut g);
            let mut yv = math.new_array();
            let mut gyv = math.new_array();
            use nuts_rs::verif::Transformation;
            if h.transformation_mut().inv_transform_normalize(&mut math, &col(&x), &col(&g), &mut yv, &mut gyv).is_err() {
                continue;
            }
            let y = math.box_array(&yv);
            let gy = math.box_array(&gyv);
            let scale = y.iter().fold(1e-3f64, |m, v| m.max(v.abs()));
            for i in 0..d {
                worst = worst.max((y[i] + gy[i]).abs() / scale);
            }
        }
        if !(worst < 2e-3) {
            p.violation(
                format!("C08/low-rank-adaptation-does-not-whiten-gaussian/{key}"),
                format!("after window {wi} ({w:?}): max |y + grad_y| / |y| = {worst:e} on probe points"),
                replay,
            );
            return;
        }
        ranks.push(matches!(w, Win::Stretched(..)) as u8);
    }
    p.class(format!("lowrank-history:{ranks:?}"));
}

fn lowrank_degeneracy(p: &mut Partial, tier: Tier) {
    let alpha: Vec<f64> = tier.pick(vec![0.0, 1.0, -1.0, 1e300, f64::NAN, f64::INFINITY], ALPHA.to_vec());
    let n = alpha.len();
    let good_x = [0.3, -1.1, 2.0, 0.7];
    let total = n.pow(6);
    for idx in 0..total {
        let mut k = idx;
        let mut vals = [0.0f64; 6];
        for v in vals.iter_mut() {
            *v = alpha[k % n];
            k /= n;
        }
        let draws: Vec<Vec<f64>> = (0..3).map(|j| vec![vals[j], good_x[j]]).collect();
        let grads: Vec<Vec<f64>> = (0..3).map(|j| vec![vals[3 + j], -good_x[j] / 2.0]).collect();
        p.evaluations += 1;
        let replay = json!({"draws_coord0": vals[..3].iter().map(|v| format!("{v:e}")).collect::<Vec<_>>(), "grads_coord0": vals[3..].iter().map(|v| format!("{v:e}")).collect::<Vec<_>>()});
        let Some((mut math, mut h, _changed)) = lowrank_feed(2, &draws, &grads, LowRankSettings::default()) else {
            p.violation("C08/estimator-panicked/lowrank-window".to_string(), String::new(), replay);
            continue;
        };
        // the transformation in use must map a probe point to finite whitened coordinates with a
        // finite log-determinant, and back
        let probe = [0.45, -0.8];
        let ok = match h.init_state(&mut math, &probe) {
            Ok(st) => {
                let y = nv::point_transformed_position(st.point(), &mut math);
                let gy = nv::point_transformed_gradient(st.point(), &mut math);
                let e = nuts_rs::verif::Point::energy(st.point());
                y.iter().chain(gy.iter()).all(|v| v.is_finite()) && e.is_finite()
            }
            Err(_) => false,
        };
        let stats = h.transformation_mut().extract_stats(&mut math, -7);
        let _ = stats.transformation_update_id;
        if !ok {
            p.violation(
                "C08/scale-degenerate/lowrank-window".to_string(),
                "the adapted low-rank transformation maps a finite probe point to non-finite whitened coordinates / energy".to_string(),
                replay,
            );
            continue;
        }
        p.class("lowrank-window".to_string());
    }
}

// ---------------------------------------------------------------------------------------------
// closed loop
// ---------------------------------------------------------------------------------------------

fn closed_loop(preset: Preset, target: Target, tol: f64, p: &mut Partial) {
    let mut t = Tweaks::default();
    t.num_tune = 60;
    t.num_draws = 10;
    t.store_transformed = true;
    t.early_switch_freq = Some(5);
    t.switch_freq = Some(10);
    let d = target.dim();
    let start: Vec<f64> = (0..d).map(|i| 0.15 + 0.37 * i as f64).collect();
    let res = with_settings!(preset, &t, |s| run_chain(&s, Dens::new(target.clone()), 4, &start, 70));
    p.evaluations += 1;
    let key = format!("closed-loop/{preset:?}/d{d}{}", if matches!(target, Target::DenseNormal { .. }) { format!("/correlated-prec00={:.3}", match &target { Target::DenseNormal { prec, .. } => prec[0], _ => 0.0 }) } else { String::new() });
    if !matches!(res.end, RunEnd::Completed) {
        p.violation(format!("C08/closed-loop-run-failed/{key}"), format!("{:?}", res.end), json!({"preset": format!("{preset:?}")}));
        return;
    }
    // after the last transformation update every draw must sit on the whitened Gaussian
    let last_update = res.draws.iter().rposition(|r| get(&r.stats, "transformation_update_id").is_some()).unwrap_or(0);
    for (i, r) in res.draws.iter().enumerate().skip(last_update + 2) {
        let fd = f64_of(&r.stats, "fisher_distance").unwrap_or(f64::NAN);
        if !(fd <= tol * d as f64) {
            p.violation(
                format!("C08/closed-loop-not-whitened/{key}"),
                format!("draw {i}: fisher_distance {fd:e} (last transformation update at draw {last_update})"),
                json!({"preset": format!("{preset:?}"), "d": d}),
            );
            return;
        }
    }
    p.class(format!("closed-loop:{preset:?}"));
}

pub fn run(tier: Tier, _replay: Option<String>) -> i32 {
    let mut report = Report::new(
        "C08",
        tier,
        "model_checking",
        "estimators driven directly: (a) diagonal exactness on Gaussians d=1..6 (..12), condition numbers 1..1e12, all 3-/4-element draw multisets from a 6-point lattice; (b) low-rank whitening on rank-k perturbed covariances; (c) every window of 3 draws x 3 gradients over the 8-value alphabet {0,1,-1,1e-300,1e300,NaN,+inf,-inf} for the diagonal estimator (both modes), a 6-value alphabet for the low-rank estimator, and the gradient-only initialiser; (d) closed-loop fisher_distance after the last update. states = windows explored, distinct = estimator/validity classes",
    );
    report.assume("exact gradients of the Gaussian target; the low-rank estimator regularises with gamma = 1e-5 and cuts eigenvalues inside (1/2, 2), so whitening is judged to 2e-3 on covariances whose structure fits its rank");
    #[derive(Clone)]
    enum Job {
        DiagExact(usize, f64),
        DiagExactScaled(usize, f64),
        DiagWindows(bool),
        DiagInit,
        DiagHistory(bool),
        LowRankExact(usize, usize, f64),
        LowRankSmallWindow(usize, usize, usize, f64),
        LowRankDefaultCutoff(usize, f64, bool),
        LowRankHistory(usize, Vec<Win>),
        LowRankWindows,
        Closed(Preset, usize),
        /// low-rank preset with its DEFAULT eigenvalue cut-off on a correlated Gaussian
        ClosedCorr(usize, usize),
    }
    let mut jobs = vec![];
    // (with the default cut-off the direct feed is exact only where every rescaled eigenvalue of
    // the fed point set falls outside (1/2, 2): measured on the unchanged tree, these six)
    for d in [5usize, 10] {
        for c in [2.0, 9.0, 40.0] {
            jobs.push(Job::LowRankDefaultCutoff(d, c, false));
        }
    }
    // update histories on one matrix: every word of length 2 (3) over five windows
    {
        let wins = [Win::Stretched(9.0, 1.0), Win::Stretched(40.0, -1.0), Win::Axis(0), Win::Axis(1), Win::Axis(2)];
        for d in [5usize, 10] {
            for a in wins {
                for b in wins {
                    jobs.push(Job::LowRankHistory(d, vec![a, b]));
                    if tier == Tier::Thorough || d == 5 {
                        for c in wins {
                            jobs.push(Job::LowRankHistory(d, vec![a, b, c]));
                        }
                    }
                }
            }
        }
    }
    for d in tier.pick(vec![6usize, 8, 12], vec![6usize, 8, 12, 20, 50]) {
        for n in [3usize, 4, 6] {
            if 2 * n > d {
                continue;
            }
            for k in [1usize, 2] {
                for cond in [1.0, 1e3] {
                    jobs.push(Job::LowRankSmallWindow(d, n, k, cond));
                }
            }
        }
    }
    // (the estimators clamp every scale to [1e-10, 1e10]: the alphabet stays inside)
    for (d, base) in [(50usize, 1e-7), (50, 1e7), (40, 1e-8), (33, 3e9)] {
        jobs.push(Job::DiagExactScaled(d, base));
    }
    for d in 1..=tier.pick(6usize, 12) {
        for cond in [1.0, 1e3, 1e6, 1e12] {
            jobs.push(Job::DiagExact(d, cond));
        }
    }
    jobs.push(Job::DiagWindows(true));
    jobs.push(Job::DiagWindows(false));
    jobs.push(Job::DiagInit);
    jobs.push(Job::DiagHistory(true));
    jobs.push(Job::DiagHistory(false));
    for d in 2..=tier.pick(5usize, 8) {
        for k in 0..=d.min(3) {
            for cond in [1.0, 1e3] {
                jobs.push(Job::LowRankExact(d, k, cond));
            }
        }
    }
    jobs.push(Job::LowRankWindows);
    for preset in [Preset::DiagNuts, Preset::DiagMclmc] {
        for d in [2usize, 5] {
            jobs.push(Job::Closed(preset, d));
        }
    }
    for which in [0usize, 1, 3] {
        jobs.push(Job::ClosedCorr(which, 0));
    }
    report.bounds = json!({"jobs": jobs.len(), "alphabet": ALPHA.iter().map(|v| format!("{v:e}")).collect::<Vec<_>>()});
    mc_core::par_for_each(&jobs, |_, j| {
        let mut p = Partial::new();
        match j {
            Job::DiagExact(d, c) => diag_exactness(*d, *c, &mut p, tier),
            Job::DiagWindows(gb) => diag_degeneracy(&mut p, *gb, tier),
            Job::DiagInit => diag_init_degeneracy(&mut p),
            Job::DiagHistory(g) => diag_history(*g, &mut p),
            Job::DiagExactScaled(d, b) => diag_exactness_scaled(*d, 1.0, *b, &mut p, tier),
            Job::LowRankExact(d, k, c) => lowrank_exactness(*d, *k, *c, &mut p),
            Job::LowRankSmallWindow(d, n, k, c) => lowrank_small_window(*d, *n, *k, *c, &mut p),
            Job::LowRankDefaultCutoff(d, c, comp) => lowrank_default_cutoff(*d, *c, *comp, &mut p),
            Job::LowRankHistory(d, seq) => lowrank_history(*d, seq, &mut p),
            Job::LowRankWindows => lowrank_degeneracy(&mut p, tier),
            Job::ClosedCorr(which, _) => {
                // strongly correlated pairs of either sign, one stretched / one compressed direction
                let dense = |d: usize, f: &dyn Fn(usize, usize) -> f64| -> Vec<f64> { (0..d * d).map(|k| f(k / d, k % d)).collect() };
                let (d, prec): (usize, Vec<f64>) = match which {
                    0 => { let r: f64 = 0.95; let k = 1.0 / (1.0 - r * r); (2, vec![k, -r * k, -r * k, k]) }
                    1 => { let r: f64 = -0.8; let k = 1.0 / (1.0 - r * r); (2, vec![k, -r * k, -r * k, k]) }
                    _ => { let d = 5; (d, dense(d, &|i, j| if i == j { 1.0 + 9.0 } else { 9.0 })) }
                };
                closed_loop(Preset::LowRankNuts, Target::DenseNormal { mu: (0..d).map(|i| 0.3 * i as f64).collect(), prec }, 1e-6, &mut p)
            }
            Job::Closed(preset, d) => closed_loop(
                *preset,
                Target::DiagNormal { mu: (0..*d).map(|i| 0.3 * i as f64).collect(), sigma: (0..*d).map(|i| 0.2 * 4f64.powi(i as i32)).collect() },
                1e-8,
                &mut p,
            ),
        }
        p.states = p.evaluations;
        p.transitions = p.evaluations;
        p.validated = p.evaluations;
        if p.samples.is_empty() {
            p.sample(json!({"job": match j { Job::DiagExact(d, c) => format!("diag exactness d={d} cond={c:e}"), Job::DiagExactScaled(d, b) => format!("diag exactness d={d} base scale {b:e}"), Job::DiagWindows(g) => format!("diag windows grad_based={g}"), Job::DiagInit => "gradient initialiser".into(), Job::DiagHistory(g) => format!("diag window history grad_based={g}"), Job::LowRankExact(d, k, c) => format!("low-rank exactness d={d} rank={k} cond={c:e}"), Job::LowRankSmallWindow(d, n, k, c) => format!("low-rank small window d={d} n={n} rank={k} cond={c:e}"), Job::LowRankDefaultCutoff(d, c, comp) => format!("low-rank default cut-off d={d} c={c} compressed={comp}"), Job::LowRankHistory(d, seq) => format!("low-rank update history d={d} {seq:?}"), Job::LowRankWindows => "low-rank windows".into(), Job::Closed(pr, d) => format!("closed loop {pr:?} d={d}"), Job::ClosedCorr(w, _) => format!("closed loop low-rank correlated target {w}") }}));
        }
        report.merge(p);
    });
    report.finish()
}
