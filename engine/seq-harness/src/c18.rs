//! C18 — MCLMC keeps its structural invariants.
//!
//! Public API (`Settings::new_chain` with a delegating `SpyMath`): configuration alphabet
//! (dimension x trajectory kind x step size x decoherence length x subsample frequency x dynamic
//! step size x switch fraction) x a density fault at EVERY evaluation index of the first draws (and
//! at two successive evaluations). Oracles on every `esh_momentum_update` / `array_normalize` /
//! momentum draw seen by the spy, on step counts and on divergent draws.

use mc_core::{Partial, Report, Tier};
use nuts_rs::verif::StatsDims;
use nuts_rs::{Chain, MclmcTrajectoryKind, Settings, Storable};
use rand::rngs::ChaCha8Rng;
use rand::SeedableRng;
use serde_json::json;

use crate::common::models::{Dens, FaultKind, Target};
use crate::common::refmodel::esh_reference;
use crate::common::runner::{diag_mclmc, lowrank_mclmc, panic_msg, Tweaks};
use crate::common::spy::{SpyEvent, SpyMath};
use crate::common::stats::*;

#[derive(Clone, Debug)]
struct Cfg {
    name: String,
    lowrank: bool,
    dim: usize,
    kind: MclmcTrajectoryKind,
    step: f64,
    length: f64,
    subsample: f64,
    dynamic: bool,
    switch_fraction: f64,
    num_tune: u64,
    max_energy_error: f64,
}

fn target(d: usize) -> Target {
    Target::DiagNormal {
        mu: (0..d).map(|i| 0.2 * i as f64 - 0.3).collect(),
        sigma: (0..d).map(|i| 0.6 + 0.5 * (i % 3) as f64).collect(),
    }
}

struct DrawObs {
    pos: Vec<f64>,
    diverging: bool,
    step_size: f64,
    num_steps: u64,
    stats: StatRow,
    events: Vec<SpyEvent>,
    n_eval_after: u64,
}

fn run(c: &Cfg, faults: &[(u64, FaultKind)], n_draws: usize) -> Result<(Vec<DrawObs>, u64), String> {
    let mut t = Tweaks::default();
    t.num_tune = c.num_tune;
    t.num_draws = 4;
    t.mclmc_step_size = Some(c.step);
    t.mclmc_length = Some(c.length);
    t.subsample_frequency = Some(c.subsample);
    t.dynamic_step_size = Some(c.dynamic);
    t.trajectory_kind = Some(c.kind);
    t.switch_fraction = Some(c.switch_fraction);
    t.max_energy_error = Some(c.max_energy_error);
    t.store_unconstrained = true;
    let dens = Dens::with_faults(target(c.dim), faults.to_vec());
    dens.log.borrow_mut().eval_budget = Some(400_000);
    let log = dens.log.clone();
    let (math, spy) = SpyMath::logging(dens);
    let mut rng = ChaCha8Rng::seed_from_u64(9);
    let start: Vec<f64> = (0..c.dim).map(|i| 0.15 + 0.37 * i as f64).collect();
    macro_rules! go {
        ($s:expr) => {{
            let s = $s;
            let mut chain = std::panic::catch_unwind(std::panic::AssertUnwindSafe(|| s.new_chain(0, math, &mut rng))).map_err(|p| format!("new_chain panicked: {}", panic_msg(&p)))?;
            match std::panic::catch_unwind(std::panic::AssertUnwindSafe(|| chain.set_position(&start))) {
                Ok(Ok(())) => {}
                Ok(Err(e)) => return Err(format!("set_position: {e:#}")),
                Err(p) => return Err(format!("set_position panicked: {}", panic_msg(&p))),
            }
            let n_init = log.borrow().n_eval;
            let mut out = vec![];
            for k in 0..n_draws {
                let ev0 = spy.borrow().events.len();
                match std::panic::catch_unwind(std::panic::AssertUnwindSafe(|| chain.expanded_draw())) {
                    Ok(Ok((pos, _d, mut stats, info))) => {
                        let m = chain.math();
                        let dims = StatsDims::from(&*m);
                        let row = to_row(stats.get_all(&dims));
                        drop(m);
                        out.push(DrawObs {
                            pos: pos.to_vec(),
                            diverging: info.diverging,
                            step_size: info.step_size,
                            num_steps: info.num_steps,
                            stats: row,
                            events: spy.borrow().events[ev0..].to_vec(),
                            n_eval_after: log.borrow().n_eval,
                        });
                    }
                    Ok(Err(e)) => return Err(format!("draw {k}: {e:#}")),
                    Err(p) => return Err(format!("draw {k} panicked: {}", panic_msg(&p))),
                }
            }
            Ok((out, n_init))
        }};
    }
    if c.lowrank {
        go!(lowrank_mclmc(&t))
    } else {
        go!(diag_mclmc(&t))
    }
}

fn judge(c: &Cfg, faults: &[(u64, FaultKind)], draws: &[DrawObs], p: &mut Partial, tag: &str) {
    let key = format!("{}/{tag}", c.name);
    let replay = json!({"config": format!("{c:?}"), "faults": faults.iter().map(|(k, f)| json!([k, f.name()])).collect::<Vec<_>>()});
    let mut viol = |oracle: &str, detail: String, p: &mut Partial| {
        p.violation(format!("C18/{oracle}/{key}"), detail, replay.clone());
    };
    let switch_draw = (c.switch_fraction * c.num_tune as f64) as u64;
    let start: Vec<f64> = (0..c.dim).map(|i| 0.15 + 0.37 * i as f64).collect();
    let mut prev = start;
    let mut first_esh_draw: Option<usize> = None;
    for (d, dr) in draws.iter().enumerate() {
        let mut n_esh = 0;
        let mut first_esh_idx = None;
        for (i, e) in dr.events.iter().enumerate() {
            match e {
                SpyEvent::Esh { grad, before, after, step, ret } => {
                    n_esh += 1;
                    first_esh_idx.get_or_insert(i);
                    let nrm = after.iter().map(|x| x * x).sum::<f64>().sqrt();
                    if !((nrm - 1.0).abs() <= 1e-12) {
                        viol("momentum-not-unit-after-esh-update", format!("draw {d}: |u| = {nrm}"), p);
                        return;
                    }
                    let nb = before.iter().map(|x| x * x).sum::<f64>().sqrt();
                    if (nb - 1.0).abs() > 1e-9 {
                        viol("momentum-not-unit-before-esh-update", format!("draw {d}: |u| = {nb}"), p);
                        return;
                    }
                    let gn = grad.iter().map(|g| g * g).sum::<f64>().sqrt();
                    let delta = step.abs() * gn / (c.dim as f64 - 1.0);
                    if delta < 30.0 && gn > 0.0 && gn.is_finite() {
                        let (u, dk) = esh_reference(grad, before, *step);
                        let bad = (0..c.dim).any(|k| (u[k] - after[k]).abs() > 1e-9) || !mc_core::rel_close(*ret, dk, 1e-8, 1e-10);
                        if bad {
                            viol("not-the-closed-form-esh-update", format!("draw {d}: after {:?} vs {:?}; dKE {ret} vs {dk}", &after[..c.dim.min(3)], &u[..c.dim.min(3)]), p);
                            return;
                        }
                    }
                }
                SpyEvent::Normalize { after } => {
                    let nrm = after.iter().map(|x| x * x).sum::<f64>().sqrt();
                    if !((nrm - 1.0).abs() <= 1e-12) {
                        viol("momentum-not-unit-after-refresh", format!("draw {d}: |u| = {nrm}"), p);
                        return;
                    }
                }
                _ => {}
            }
        }
        // ---- trajectory kind / switch ----
        if n_esh > 0 && first_esh_draw.is_none() {
            first_esh_draw = Some(d);
            if c.kind == MclmcTrajectoryKind::EuclideanEarlyThenMicrocanonical && d > 0 {
                // the switch draw starts with a fresh, normalised momentum
                let idx = first_esh_idx.unwrap();
                let before = &dr.events[..idx];
                let fresh = before.iter().position(|e| matches!(e, SpyEvent::Gaussian { .. }));
                let normalised = fresh.map(|g| before[g..].iter().any(|e| matches!(e, SpyEvent::Normalize { .. }))).unwrap_or(false);
                if !normalised {
                    viol("switch-without-fresh-normalised-momentum", format!("draw {d}"), p);
                    return;
                }
            }
        }
        let expect_micro = match c.kind {
            MclmcTrajectoryKind::Microcanonical => true,
            MclmcTrajectoryKind::Euclidean => false,
            MclmcTrajectoryKind::EuclideanEarlyThenMicrocanonical => d as u64 >= switch_draw,
        };
        let n_logp = dr.events.iter().filter(|e| matches!(e, SpyEvent::Logp { .. })).count();
        if n_logp > 0 && (n_esh > 0) != expect_micro {
            viol(
                "trajectory-kind-switch-at-wrong-draw",
                format!("draw {d}: microcanonical updates seen: {} but the configured switch draw is {switch_draw} (kind {:?})", n_esh > 0, c.kind),
                p,
            );
            return;
        }
        // ---- step counts ----
        let eps = dr.step_size;
        let base = ((c.subsample * c.length / eps).round().max(1.0).min(1e6)) as u64;
        // ---- both half-updates at one point use the same gradient ----
        // (a draw without fault, divergence or retry is the plain sequence first, second, first,
        // second, ..: the second half-update of a step and the first of the next step happen at
        // the same point of the same transformation, whatever that transformation is)
        if faults.is_empty() && !dr.diverging && dr.num_steps == base {
            let eshs: Vec<&Vec<f64>> = dr.events.iter().filter_map(|e| if let SpyEvent::Esh { grad, .. } = e { Some(grad) } else { None }).collect();
            if eshs.len() as u64 == 2 * base {
                for k in 0..(base as usize).saturating_sub(1) {
                    p.count("half_update_gradient_pairs_compared", 1);
                    if !mc_core::slice_bits_eq(eshs[2 * k + 1], eshs[2 * k + 2]) {
                        viol(
                            "half-updates-at-one-point-use-different-gradients",
                            format!("draw {d}, step {k}: second half-update with {:?}, first half-update of the next step with {:?}", &eshs[2 * k + 1][..c.dim.min(3)], &eshs[2 * k + 2][..c.dim.min(3)]),
                            p,
                        );
                        return;
                    }
                }
            }
        }
        if !dr.diverging {
            if c.dynamic {
                if dr.num_steps < base {
                    viol("too-few-steps", format!("draw {d}: {} steps, base {base}", dr.num_steps), p);
                    return;
                }
            } else if dr.num_steps != base {
                viol("wrong-number-of-steps", format!("draw {d}: {} steps but max(1, round(f*L/eps)) = {base} (f={}, L={}, eps={eps})", dr.num_steps, c.subsample, c.length), p);
                return;
            }
            // the halving/doubling bookkeeping returns to factor 1: total integration time
            if let Some(avg) = f64_of(&dr.stats, "average_step_size") {
                let total = avg * dr.num_steps as f64;
                if !mc_core::rel_close(total, base as f64 * eps, 1e-10, 0.0) {
                    viol("step-size-factor-bookkeeping", format!("draw {d}: integrated time {total} but {base} full steps of {eps} = {}", base as f64 * eps), p);
                    return;
                }
            }
            if u64_of(&dr.stats, "num_steps") != Some(dr.num_steps) {
                viol("num-steps-stat-differs-from-progress", format!("draw {d}"), p);
            }
        } else {
            // divergent draw: position unchanged, momentum refreshed
            if !mc_core::slice_bits_eq(&dr.pos, &prev) {
                viol("divergent-draw-moved", format!("draw {d}: {:?} vs previous {:?}", dr.pos, prev), p);
                return;
            }
            let last_logp = dr.events.iter().rposition(|e| matches!(e, SpyEvent::Logp { .. })).unwrap_or(0);
            let fresh_after = dr.events[last_logp..].iter().any(|e| matches!(e, SpyEvent::Gaussian { .. }));
            if !fresh_after {
                viol("divergent-draw-without-momentum-refresh", format!("draw {d}"), p);
                return;
            }
            // in the microcanonical phase the fresh momentum is a unit vector: the last momentum
            // drawn in this draw is followed by a projection onto the sphere
            if expect_micro {
                let last_gauss = dr.events.iter().rposition(|e| matches!(e, SpyEvent::Gaussian { .. })).unwrap_or(0);
                let normalised = dr.events[last_gauss..].iter().any(|e| matches!(e, SpyEvent::Normalize { .. }));
                p.count("divergent_microcanonical_draws_checked_for_a_unit_refresh", 1);
                if !normalised {
                    viol("divergent-draw-keeps-a-momentum-off-the-unit-sphere", format!("draw {d}: the momentum drawn after the divergence is not normalised"), p);
                    return;
                }
            }
        }
        if dr.pos.iter().any(|x| !x.is_finite()) {
            viol("non-finite-position", format!("draw {d}"), p);
            return;
        }
        p.class(format!("{:?}:dyn{}:div{}:retry{}", c.kind, c.dynamic, dr.diverging, (dr.num_steps > base) as u8));
        prev = dr.pos.clone();
    }
}

pub fn run_check(tier: Tier, _replay: Option<String>) -> i32 {
    let mut report = Report::new(
        "C18",
        tier,
        "fault_enumeration",
        "DiagMclmc / LowRankMclmc x dims {2,3,7} x trajectory kinds x step size {0.1,0.5,1.3} x L {0.6,3} x subsample {0,0.4,1} x dynamic step size x switch fraction {0,0.3,1} x num_tune {6; T: 0,1,2,9}; fault-free histories plus a density fault (recoverable error / huge drop) at every evaluation index of the first draws, at two successive evaluations and (T) at every pair up to five evaluations apart; every esh_momentum_update / array_normalize / momentum draw observed through a delegating Math wrapper. distinct = (kind, dynamic, diverging, retried) classes",
    );
    report.assume("ESH reference compared when delta = step*|g|/(d-1) < 30 (beyond that the update saturates to +-g/|g|)");
    let mut cfgs = vec![];
    for lowrank in [false, true] {
        for dim in tier.pick(vec![2usize, 3], vec![2usize, 3, 7]) {
            for kind in [MclmcTrajectoryKind::Microcanonical, MclmcTrajectoryKind::Euclidean, MclmcTrajectoryKind::EuclideanEarlyThenMicrocanonical] {
                for step in [0.1, 0.5, 1.3] {
                    for length in [0.6, 3.0] {
                        for subsample in [0.0, 0.4, 1.0] {
                            for dynamic in [false, true] {
                                let fractions: Vec<f64> = if kind == MclmcTrajectoryKind::EuclideanEarlyThenMicrocanonical { vec![0.0, 0.3, 1.0] } else { vec![0.3] };
                                for sf in fractions {
                                    if lowrank && (tier == Tier::Quick) && !(step == 0.5 && length == 3.0) {
                                        continue;
                                    }
                                    // (round 13) warmup lengths around the switch draw: none, one draw,
                                    // the usual six, and nine (switch draw 2 for fraction 0.3)
                                    let tunes: Vec<u64> = if kind == MclmcTrajectoryKind::EuclideanEarlyThenMicrocanonical {
                                        tier.pick(vec![6, 1], vec![6, 0, 1, 2, 9])
                                    } else {
                                        tier.pick(vec![6], vec![6, 0])
                                    };
                                    for num_tune in tunes {
                                        cfgs.push(Cfg {
                                            name: format!("{}-d{dim}-{kind:?}-eps{step}-L{length}-f{subsample}-dyn{dynamic}-sw{sf}-tune{num_tune}", if lowrank { "lowrank" } else { "diag" }),
                                            lowrank,
                                            dim,
                                            kind,
                                            step,
                                            length,
                                            subsample,
                                            dynamic,
                                            switch_fraction: sf,
                                            num_tune,
                                            max_energy_error: 1000.0,
                                        });
                                    }
                                }
                            }
                        }
                    }
                }
            }
        }
    }
    let mut jobs: Vec<(usize, Vec<(u64, FaultKind)>, String)> = vec![];
    for (ci, c) in cfgs.iter().enumerate() {
        jobs.push((ci, vec![], "nofault".into()));
        // fault sweep over the evaluations of the first draws (cheap configurations only)
        // Q: the cheap corner; T (round 13): every configuration of dimension <= 3 whose first three
        // draws take at most 40 evaluations, and the cheap corner in dimension 7
        let cheap_corner = c.step == 0.5 && c.length == 3.0 && c.subsample >= 0.4;
        let sweep = match tier {
            Tier::Quick => cheap_corner && c.num_tune == 6 && !c.lowrank && c.dim == 2,
            Tier::Thorough => cheap_corner || c.dim <= 3,
        };
        if sweep {
            if let Ok((base, n_init)) = run(c, &[], 3) {
                let end = base.last().map(|d| d.n_eval_after).unwrap_or(n_init);
                if !cheap_corner && end - n_init > 40 {
                    continue;
                }
                for k in n_init..end {
                    for f in [FaultKind::Recoverable, FaultKind::HugeDrop] {
                        jobs.push((ci, vec![(k, f)], format!("k{k}-{}", f.name())));
                    }
                    jobs.push((ci, vec![(k, FaultKind::Recoverable), (k + 1, FaultKind::Recoverable)], format!("k{k}+k{}-recoverable", k + 1)));
                    jobs.push((ci, vec![(k, FaultKind::Recoverable), (k + 2, FaultKind::HugeDrop)], format!("k{k}+k{}-mixed", k + 2)));
                    if tier == Tier::Thorough && cheap_corner {
                        // every pair of faults up to five evaluations apart, both kinds
                        for gap in 1..=5u64 {
                            for (f1, f2) in [(FaultKind::HugeDrop, FaultKind::Recoverable), (FaultKind::HugeDrop, FaultKind::HugeDrop), (FaultKind::Recoverable, FaultKind::Recoverable)] {
                                if gap == 1 && f1 == FaultKind::Recoverable && f2 == FaultKind::Recoverable {
                                    continue;
                                }
                                jobs.push((ci, vec![(k, f1), (k + gap, f2)], format!("k{k}-{}+k{}-{}", f1.name(), k + gap, f2.name())));
                            }
                        }
                    }
                }
            }
        }
    }
    report.bounds = json!({"configurations": cfgs.len(), "jobs": jobs.len(), "draws_per_history": 10});
    mc_core::par_for_each(&jobs, |i, (ci, faults, tag)| {
        let mut p = Partial::new();
        let c = &cfgs[*ci];
        p.evaluations += 1;
        match run(c, faults, 10) {
            Ok((draws, _)) => {
                judge(c, faults, &draws, &mut p, tag);
                if i % 997 == 5 {
                    p.sample(json!({"config": c.name, "faults": faults.iter().map(|(k, f)| json!([k, f.name()])).collect::<Vec<_>>(), "num_steps": draws.iter().map(|d| d.num_steps).collect::<Vec<_>>(), "diverging": draws.iter().map(|d| d.diverging).collect::<Vec<_>>()}));
                }
            }
            Err(e) => {
                if e.contains("panicked") {
                    p.violation(format!("C18/panic/{}/{tag}", c.name), e, json!({"config": format!("{c:?}")}));
                } else {
                    p.count("histories_ending_in_error", 1);
                }
            }
        }
        report.merge(p);
    });
    // the update itself, directly: momenta on the sphere incl. (anti)parallel to the gradient and
    // tiny rotations of them x update arguments from 1e-3 to saturation, dimensions 2..=17
    {
        let mut p = Partial::new();
        for n in [2usize, 3, 4, 7, 16, 17] {
            for variant in 0..3 {
                let g: Vec<f64> = (0..n).map(|i| ((i as f64 + 1.0) * (0.7 + 0.9 * variant as f64)).sin() * (1.0 + variant as f64 * 40.0) + 0.1).collect();
                let mut math = nuts_rs::CpuMath::new(Dens::new(Target::std_normal(n)));
                crate::c17::esh_sphere_probes(&mut math, n, &g, &mut p, "C18/esh-momentum-update/");
            }
        }
        p.class("esh-direct-probes".to_string());
        report.merge(p);
    }
    report.finish()
}
