//! C03 — every draw is a real trajectory state and its statistics describe it.
//!
//! Chain histories: the real `NutsChain` (built through hook H1 with the scripted RNG and the
//! momentum-scripting `SpyMath`) is run for 2-3 draws over every direction / accept answer (rejects
//! bounded by a deviation budget). Each history is replayed on an independent "mirror" chain
//! (plain loop: nuts::draw with a recording collector, then adapt) whose recorded trajectories are
//! judged by R-nuts; the real chain's positions, Progress and statistics must agree bit for bit with
//! the mirror and with the reference.

use std::cell::RefCell;
use std::rc::Rc;

use mc_core::{explore, Ctx, Partial, Report, Tier};
use nuts_rs::verif::{
    self as nv, AdaptStrategy, Collector, DiagAdaptStrategy, DivergenceStatsOptions, GlobalStrategy,
    GlobalStrategyStatsOptions, Hamiltonian, LowRankMassMatrix, LowRankMassMatrixStrategy, NutsChain,
    NutsOptions, Point, SampleInfo, StatOptions, State, StatsDims, TransformedHamiltonian,
    TransformedPoint, TransformedPointStatsOptions,
};
use nuts_rs::{
    Chain, DiagAdaptExpSettings, EuclideanAdaptOptions, KineticEnergyKind, LowRankSettings, Math,
    StepSizeAdaptMethod, Storable,
};
use serde_json::json;

use crate::common::models::{Dens, FaultKind, Target};
use crate::common::rng::{RngCall, ScriptedRng};
use crate::common::rnuts::*;
use crate::common::spy::{SpyEvent, SpyMath, SpyRc};
use crate::common::stats::*;

type M = SpyMath<Dens>;

#[derive(Clone, Debug)]
struct Cfg {
    name: String,
    lowrank: bool,
    kind: KineticEnergyKind,
    dim: usize,
    maxdepth: u64,
    mindepth: u64,
    target_time: Option<f64>,
    max_energy_error: f64,
    n_draws: usize,
    fault: Option<(u64, FaultKind)>,
    reject_budget: u32,
    fixed_step: Option<f64>,
    /// warmup length handed to the adaptation strategy (2: no mass-matrix change within a history)
    num_tune: u64,
    /// start far in the tail (4 standard deviations out): the first trajectories LOSE much energy
    far_start: bool,
}

fn target(dim: usize) -> Target {
    let t = Target::DiagNormal {
        mu: (0..dim).map(|i| 0.2 - 0.3 * i as f64).collect(),
        sigma: (0..dim).map(|i| 0.8 + 0.9 * i as f64).collect(),
    };
    if dim == 0 {
        // a parameter-free model still has a log density, and it need not be 0
        return Target::Offset { inner: Box::new(t), c: -3.5 };
    }
    t
}

fn nuts_options(c: &Cfg) -> NutsOptions {
    NutsOptions {
        maxdepth: c.maxdepth,
        mindepth: c.mindepth,
        check_turning: true,
        store_divergences: true,
        target_integration_time: c.target_time,
        extra_doublings: 0,
        max_energy_error: c.max_energy_error,
    }
}

fn adapt_opts<S: std::fmt::Debug + Default>(mm: S, fixed: Option<f64>) -> EuclideanAdaptOptions<S> {
    let mut a = EuclideanAdaptOptions::<S>::default();
    a.mass_matrix_options = mm;
    a.step_size_settings.jitter = None;
    a.step_size_settings.adapt_options.method = match fixed {
        Some(s) => StepSizeAdaptMethod::Fixed(s),
        None => StepSizeAdaptMethod::DualAverage,
    };
    a.early_mass_matrix_switch_freq = 2;
    a
}

/// forwards every callback to the strategy's own collector and to the recorder
struct Tee<C> {
    inner: C,
    rec: RecCollector,
}
impl<C: Collector<M, TransformedPoint<M>>> Collector<M, TransformedPoint<M>> for Tee<C> {
    fn register_leapfrog(&mut self, math: &mut M, start: &State<M, TransformedPoint<M>>, end: &State<M, TransformedPoint<M>>, d: Option<&nuts_rs::DivergenceInfo>) {
        self.inner.register_leapfrog(math, start, end, d);
        self.rec.register_leapfrog(math, start, end, d);
    }
    fn register_draw(&mut self, math: &mut M, state: &State<M, TransformedPoint<M>>, info: &SampleInfo) {
        self.inner.register_draw(math, state, info);
        self.rec.register_draw(math, state, info);
    }
    fn register_init(&mut self, math: &mut M, state: &State<M, TransformedPoint<M>>, o: &NutsOptions) {
        self.inner.register_init(math, state, o);
        self.rec.register_init(math, state, o);
    }
}

struct DrawObs {
    pos: Vec<f64>,
    diverging: bool,
    tuning: bool,
    step_size_after: f64,
    num_steps: u64,
    stats: StatRow,
    prods3: u64,
    logp_positions: Vec<Vec<f64>>,
}

struct MirrorDraw {
    rec: Recorded,
    answers: Vec<Ans>,
    pos: Vec<f64>,
    depth: u64,
    reached_maxdepth: bool,
    diverging: bool,
    step_size_used: f64,
    step_size_after: f64,
    options: NutsOptions,
    /// the adaptation after this draw replaced the transformation
    transform_changed: bool,
}

fn start_pos_of(c: &Cfg) -> Vec<f64> {
    if c.far_start {
        // target(dim): mean 0.2 - 0.3 i, sd 0.8 + 0.9 i
        return (0..c.dim).map(|i| (0.2 - 0.3 * i as f64) + 4.0 * (0.8 + 0.9 * i as f64)).collect();
    }
    (0..c.dim).map(|i| 0.35 + 0.4 * i as f64).collect()
}

fn new_math(c: &Cfg) -> (M, SpyRc) {
    let dens = match c.fault {
        Some(f) => Dens::with_faults(target(c.dim), vec![f]),
        None => Dens::new(target(c.dim)),
    };
    let (m, spy) = SpyMath::logging(dens);
    spy.borrow_mut().gaussian_deterministic_fallback = true;
    (m, spy)
}

macro_rules! with_strategy {
    ($c:expr, $math:ident, |$strategy:ident, $ham:ident, $statopt:ident| $body:expr) => {{
        if $c.lowrank {
            let a = adapt_opts(LowRankSettings::default(), $c.fixed_step);
            let $strategy = GlobalStrategy::<M, LowRankMassMatrixStrategy>::new(&mut $math, a, $c.num_tune, 0);
            let mm = LowRankMassMatrix::new(&mut $math, LowRankSettings::default());
            let $ham = TransformedHamiltonian::new(&mut $math, mm, $c.kind);
            let $statopt = StatOptions::<M, GlobalStrategy<M, LowRankMassMatrixStrategy>> {
                adapt: GlobalStrategyStatsOptions { step_size: (), mass_matrix: () },
                hamiltonian: -1,
                point: TransformedPointStatsOptions { store_gradient: true, store_unconstrained: true, store_transformed: true },
                divergence: DivergenceStatsOptions { store_divergences: true },
            };
            $body
        } else {
            let a = adapt_opts(DiagAdaptExpSettings::default(), $c.fixed_step);
            let $strategy = GlobalStrategy::<M, DiagAdaptStrategy<M>>::new(&mut $math, a, $c.num_tune, 0);
            let mm = nv::diag_mass_matrix_new(&mut $math, false);
            let $ham = TransformedHamiltonian::new(&mut $math, mm, $c.kind);
            let $statopt = StatOptions::<M, GlobalStrategy<M, DiagAdaptStrategy<M>>> {
                adapt: GlobalStrategyStatsOptions { step_size: (), mass_matrix: () },
                hamiltonian: -1,
                point: TransformedPointStatsOptions { store_gradient: true, store_unconstrained: true, store_transformed: true },
                divergence: DivergenceStatsOptions { store_divergences: true },
            };
            $body
        }
    }};
}

/// the real chain, driven by the explorer
fn run_real(c: &Cfg, ctx: &mut Ctx) -> Result<(Vec<DrawObs>, Vec<RngCall>), String> {
    let (mut math, spy) = new_math(c);
    let rng = CtxRng::new(ctx, AcceptMode::Extreme);
    let raw_log: Rc<RefCell<Vec<RngCall>>> = Rc::new(RefCell::new(vec![]));
    let rng = LoggingRng { inner: rng, log: raw_log.clone() };
    let r = with_strategy!(c, math, |strategy, ham, statopt| {
        let mut chain = NutsChain::new(math, ham, strategy, nuts_options(c), rng, 0, statopt);
        let sp = start_pos_of(c);
        match std::panic::catch_unwind(std::panic::AssertUnwindSafe(|| chain.set_position(&sp))) {
            Ok(Ok(())) => {}
            Ok(Err(e)) => return Err(format!("set_position: {e:#}")),
            Err(p) => return Err(format!("set_position panicked: {}", crate::common::runner::panic_msg(&p))),
        }
        let mut out = vec![];
        for k in 0..c.n_draws {
            let ev0 = spy.borrow().events.len();
            let r = std::panic::catch_unwind(std::panic::AssertUnwindSafe(|| chain.expanded_draw()));
            match r {
                Ok(Ok((pos, _data, mut stats, info))) => {
                    let m = chain.math();
                    let dims = StatsDims::from(&*m);
                    let row = to_row(stats.get_all(&dims));
                    drop(m);
                    let s = spy.borrow();
                    let evs = &s.events[ev0..];
                    out.push(DrawObs {
                        pos: pos.to_vec(),
                        diverging: info.diverging,
                        tuning: info.tuning,
                        step_size_after: info.step_size,
                        num_steps: info.num_steps,
                        stats: row,
                        prods3: evs.iter().filter(|e| matches!(e, SpyEvent::Prods3 { .. })).count() as u64,
                        logp_positions: evs.iter().filter_map(|e| if let SpyEvent::Logp { pos, .. } = e { Some(pos.clone()) } else { None }).collect(),
                    });
                }
                Ok(Err(e)) => return Err(format!("draw {k}: {e:#}")),
                Err(p) => return Err(format!("draw {k} panicked: {}", crate::common::runner::panic_msg(&p))),
            }
        }
        Ok(out)
    });
    let log = raw_log.borrow().clone();
    r.map(|o| (o, log))
}

/// records the raw values handed out, so that the mirror chain can be fed the identical stream
struct LoggingRng {
    inner: CtxRng,
    log: Rc<RefCell<Vec<RngCall>>>,
}
impl rand::rand_core::TryRng for LoggingRng {
    type Error = std::convert::Infallible;
    fn try_next_u32(&mut self) -> Result<u32, Self::Error> {
        let v = self.inner.try_next_u32()?;
        self.log.borrow_mut().push(RngCall::U32(v));
        Ok(v)
    }
    fn try_next_u64(&mut self) -> Result<u64, Self::Error> {
        let v = self.inner.try_next_u64()?;
        self.log.borrow_mut().push(RngCall::U64(v));
        Ok(v)
    }
    fn try_fill_bytes(&mut self, dst: &mut [u8]) -> Result<(), Self::Error> {
        self.inner.try_fill_bytes(dst)
    }
}

/// the mirror: nuts::draw + adapt in a plain loop, fed the recorded random stream
fn run_mirror(c: &Cfg, stream: &[RngCall]) -> Result<Vec<MirrorDraw>, String> {
    let (mut math, _spy) = new_math(c);
    let vals: Vec<RngCall> = stream.to_vec();
    let pos = Rc::new(RefCell::new(0usize));
    let answers: Rc<RefCell<Vec<Ans>>> = Rc::new(RefCell::new(vec![]));
    let (v1, p1, a1) = (vals.clone(), pos.clone(), answers.clone());
    let (v2, p2, a2) = (vals.clone(), pos.clone(), answers.clone());
    let mut rng = ScriptedRng::new(
        Box::new(move |_| {
            let i = *p1.borrow();
            *p1.borrow_mut() += 1;
            match v1.get(i) {
                Some(RngCall::U32(v)) => {
                    a1.borrow_mut().push(Ans::Dir((*v as i32) < 0));
                    *v
                }
                _ => {
                    a1.borrow_mut().push(Ans::Dir(true));
                    u32::MAX
                }
            }
        }),
        Box::new(move |_| {
            let i = *p2.borrow();
            *p2.borrow_mut() += 1;
            match v2.get(i) {
                Some(RngCall::U64(v)) => {
                    a2.borrow_mut().push(Ans::Accept(*v == 0));
                    *v
                }
                _ => {
                    a2.borrow_mut().push(Ans::Accept(true));
                    0
                }
            }
        }),
    );
    with_strategy!(c, math, |strategy, ham, _statopt| {
        let mut strategy = strategy;
        let mut ham = ham;
        let mut options = nuts_options(c);
        let sp = start_pos_of(c);
        strategy.init(&mut math, &mut options, &mut ham, &sp, &mut rng).map_err(|e| format!("mirror init: {e}"))?;
        let mut state = ham.init_state(&mut math, &sp).map_err(|e| format!("mirror init_state: {e}"))?;
        let rec = Rc::new(RefCell::new(Recorded::default()));
        let mut tee = Tee { inner: strategy.new_collector(&mut math), rec: RecCollector { rec: rec.clone() } };
        let mut out = vec![];
        for d in 0..c.n_draws {
            answers.borrow_mut().clear();
            let step_used = ham.step_size();
            let opts_now = options.clone();
            let (st, info) = nv::nuts_draw(&mut math, &mut state, &mut rng, &mut ham, &options, &mut tee).map_err(|e| format!("mirror draw: {e}"))?;
            let pos = math.box_array(st.point().position()).to_vec();
            let id0 = { use nuts_rs::verif::Transformation; ham.transformation_mut().transformation_id(&mut math) };
            strategy
                .adapt(&mut math, &mut options, &mut ham, d as u64, &tee.inner, &st, &mut rng)
                .map_err(|e| format!("mirror adapt: {e}"))?;
            let id1 = { use nuts_rs::verif::Transformation; ham.transformation_mut().transformation_id(&mut math) };
            out.push(MirrorDraw {
                rec: rec.borrow().clone(),
                answers: answers.borrow().clone(),
                pos,
                depth: info.depth,
                reached_maxdepth: info.reached_maxdepth,
                diverging: info.divergence_info.is_some(),
                step_size_used: step_used,
                step_size_after: ham.step_size(),
                options: opts_now,
                transform_changed: id0 != id1,
            });
            state = st;
        }
        Ok(out)
    })
}

fn judge(c: &Cfg, real: &[DrawObs], mirror: &[MirrorDraw], choices: &[u32], p: &mut Partial) -> bool {
    let replay = json!({"config": c.name, "choices": choices});
    let mut ok = true;
    let mut viol = |oracle: &str, detail: String, p: &mut Partial| {
        p.violation(format!("C03/{oracle}/{}", c.name), detail, replay.clone());
    };
    let tgt = target(c.dim);
    let mut prev = start_pos_of(c);
    for (d, (r, m)) in real.iter().zip(mirror).enumerate() {
        let (mind, maxd) = effective_depths(&m.options, m.step_size_used);
        let ro = RefOptions { maxdepth: maxd, mindepth: mind, max_energy_error: c.max_energy_error, dim: c.dim };
        let refr = match reference(&m.rec, &m.answers, &ro) {
            Ok(x) => x,
            Err(crate::common::rnuts::RefErr::IllConditioned(..)) => {
                p.count("ill_conditioned_histories", 1);
                return true;
            }
            Err(e) => {
                viol("trajectory-differs-from-reference-nuts", format!("draw {d}: {e:?}"), p);
                return false;
            }
        };
        if refr.min_margin < 1e-7 {
            p.count("ill_conditioned_histories", 1);
            return true;
        }
        // ---- the mirror itself follows the reference (termination exactly when prescribed) ----
        let m_leaps: Vec<i64> = m.rec.leaps.iter().map(|(f, t)| if *t == i64::MAX { *f } else { *t }).collect();
        let stop_ok = match refr.stop {
            Stop::MaxDepth => m.reached_maxdepth && !m.diverging,
            Stop::Diverging => m.diverging && !m.reached_maxdepth,
            _ => !m.reached_maxdepth && !m.diverging,
        };
        let sel = m.rec.drawn_index.unwrap_or(0);
        if sel != refr.selected || m.depth != refr.depth || !stop_ok || m_leaps.len() != refr.leaps.len() || refr.consumed != m.answers.len() {
            viol(
                "trajectory-differs-from-reference-nuts",
                format!("draw {d}: implementation index {sel} depth {} maxdepth={} diverging={} leapfrogs {:?}; reference index {} depth {} stop {:?} leapfrogs {:?}", m.depth, m.reached_maxdepth, m.diverging, m_leaps, refr.selected, refr.depth, refr.stop, refr.leaps),
                p,
            );
            return false;
        }
        if refr.selected < refr.left || refr.selected > refr.right {
            viol("draw-from-rejected-subtrajectory", format!("draw {d}"), p);
            ok = false;
        }
        // ---- the real chain agrees with the mirror bit for bit ----
        if !mc_core::slice_bits_eq(&r.pos, &m.pos) {
            viol("chain-position-differs-from-selected-state", format!("draw {d}: {:?} vs {:?}", r.pos, m.pos), p);
            return false;
        }
        // (a) position is the start or an evaluated position of this draw
        let evaluated = r.logp_positions.iter().any(|q| mc_core::slice_bits_eq(q, &r.pos));
        let unchanged = mc_core::slice_bits_eq(&r.pos, &prev);
        if !(evaluated || unchanged) {
            viol("position-not-a-visited-state", format!("draw {d}"), p);
            ok = false;
        }
        // (b) this trajectory started from the previous draw
        let s0 = &m.rec.states[&0];
        if !mc_core::slice_bits_eq(&s0.x, &prev) {
            viol("trajectory-does-not-start-from-previous-draw", format!("draw {d}: {:?} vs {:?}", s0.x, prev), p);
            ok = false;
        }
        // (c) logp / gradient are those of the reported position
        let mut g = vec![0.0; c.dim];
        let lp = tgt.logp(&r.pos, &mut g);
        if f64_of(&r.stats, "logp").map(|x| x.to_bits()) != Some(lp.to_bits()) {
            viol("reported-logp-not-of-the-draw", format!("draw {d}: {:?} vs {lp}", f64_of(&r.stats, "logp")), p);
            ok = false;
        }
        if let Some(sg) = vec_of(&r.stats, "gradient") {
            if !mc_core::slice_bits_eq(&sg, &g) {
                viol("reported-gradient-not-of-the-draw", format!("draw {d}: {sg:?} vs {g:?}"), p);
                ok = false;
            }
        }
        if let Some(u) = vec_of(&r.stats, "unconstrained_draw") {
            if !mc_core::slice_bits_eq(&u, &r.pos) {
                viol("unconstrained-draw-differs", format!("draw {d}"), p);
                ok = false;
            }
        }
        // (d) statistics describe the selected state / trajectory
        let st_sel = &m.rec.states[&refr.selected];
        let e0 = s0.energy;
        let checks: [(&str, Option<f64>, f64); 2] = [
            ("energy", f64_of(&r.stats, "energy"), st_sel.energy),
            ("energy_error", f64_of(&r.stats, "energy_error"), st_sel.energy - e0),
        ];
        for (name, got, want) in checks {
            if got.map(|x| x.to_bits()) != Some(want.to_bits()) {
                viol("statistic-does-not-describe-the-draw", format!("draw {d}: {name} = {got:?}, selected state has {want}"), p);
                ok = false;
            }
        }
        let n_steps = refr.leaps.len() as u64;
        let got = (
            u64_of(&r.stats, "depth"),
            u64_of(&r.stats, "n_steps"),
            i64_of(&r.stats, "index_in_trajectory"),
            bool_of(&r.stats, "maxdepth_reached"),
            bool_of(&r.stats, "diverging"),
        );
        let want = (Some(refr.depth), Some(n_steps), Some(refr.selected), Some(refr.stop == Stop::MaxDepth), Some(refr.stop == Stop::Diverging));
        if got != want || r.num_steps != n_steps || r.diverging != (refr.stop == Stop::Diverging) {
            viol("statistic-does-not-describe-the-draw", format!("draw {d}: (depth, n_steps, index, maxdepth_reached, diverging) = {got:?}, trajectory has {want:?}; Progress.num_steps={} diverging={}", r.num_steps, r.diverging), p);
            ok = false;
        }
        // (e) arithmetic side conditions
        let depth = refr.depth;
        let lo = (1u64 << depth) - 1;
        let hi = (1u64 << (depth + 1)) - 1;
        if c.dim > 0 {
            if depth > maxd || n_steps < lo || n_steps > hi || refr.selected.unsigned_abs() > lo {
                viol("tree-arithmetic", format!("draw {d}: depth {depth} (maxdepth {maxd}) steps {n_steps} index {}", refr.selected), p);
                ok = false;
            }
            if (refr.selected == 0) != unchanged {
                viol("index-zero-iff-not-moved", format!("draw {d}: index {} unchanged={unchanged}", refr.selected), p);
                ok = false;
            }
            if maxd >= 1 && n_steps == 0 {
                viol("no-integration-step", format!("draw {d}"), p);
                ok = false;
            }
        }
        // (g) the U-turn products evaluated are exactly the prescribed checks
        if r.prods3 != refr.uturn_checks {
            viol("u-turn-checks-differ", format!("draw {d}: {} scalar products evaluated, the tree prescribes {}", r.prods3, refr.uturn_checks), p);
            ok = false;
        }
        if r.step_size_after.to_bits() != m.step_size_after.to_bits() {
            viol("step-size-differs-from-mirror", format!("draw {d}: {} vs {}", r.step_size_after, m.step_size_after), p);
            ok = false;
        }
        p.class(format!("{}:{:?}:depth{}:{}", if c.lowrank { "lr" } else { "dg" }, refr.stop, refr.depth, refr.selected.signum()));
        prev = r.pos.clone();
        let _ = r.tuning;
    }
    ok
}

// ---------------------------------------------------------------------------------------------
// C07: the trajectory acceptance statistic that dual averaging is fed with
// ---------------------------------------------------------------------------------------------

/// For chain histories with and without an injected density fault: the `mean_tree_accept` /
/// `mean_tree_accept_sym` statistics of every draw equal the mean over the trajectory's leapfrogs
/// of min(1, exp(-dE)) (symmetric variant 2 min(1,e^-dE) / (1 + e^-dE)), a divergent leapfrog
/// counting 0 - computed from the energies recorded by the independent mirror chain.
pub fn acceptance_statistic_partial(tier: Tier) -> Partial {
    let mut cfgs = vec![];
    for kind in [KineticEnergyKind::Euclidean, KineticEnergyKind::ExactNormal] {
        for dim in [1usize, 2] {
            for maxdepth in [2u64, 3] {
                let mut faults: Vec<Option<(u64, FaultKind)>> = vec![None];
                for k in tier.pick(vec![9u64, 10, 12, 14], (8u64..=18).collect()) {
                    for f in [FaultKind::Recoverable, FaultKind::LogpNan, FaultKind::HugeDrop, FaultKind::GradInf] {
                        faults.push(Some((k, f)));
                    }
                }
                for fault in faults {
                    for fixed_step in [None, Some(0.9)] {
                        cfgs.push(Cfg {
                            name: format!("diag-{kind:?}-dim{dim}-maxdepth{maxdepth}-fault{}-step{fixed_step:?}", fault.map(|(k, f)| format!("{k}:{}", f.name())).unwrap_or("none".into())),
                            lowrank: false,
                            kind,
                            dim,
                            maxdepth,
                            mindepth: 0,
                            target_time: None,
                            max_energy_error: 1000.0,
                            n_draws: 3,
                            fault,
                            reject_budget: 1,
                            fixed_step,
                            num_tune: 2,
                            far_start: false,
                        });
                    }
                }
            }
        }
    }
    let total = std::sync::Mutex::new(Partial::new());
    mc_core::par_for_each(&cfgs, |_, c| {
        let mut p = Partial::new();
        let mut stop = false;
        let _ = explore(Some(c.reject_budget), 50_000, |ctx: &mut Ctx| {
            if stop {
                return;
            }
            let Ok((real, stream)) = run_real(c, ctx) else { return };
            let Ok(mirror) = run_mirror(c, &stream) else { return };
            p.evaluations += 1;
            for (d, (r, m)) in real.iter().zip(&mirror).enumerate() {
                let Some(s0) = m.rec.states.get(&0) else { continue };
                if m.rec.leaps.is_empty() {
                    continue;
                }
                let (mut acc, mut acc_sym, mut n) = (0.0f64, 0.0f64, 0.0f64);
                let mut any_div = false;
                for (_from, to) in &m.rec.leaps {
                    let Some(st) = m.rec.states.get(to) else { continue };
                    n += 1.0;
                    if st.diverged {
                        any_div = true;
                        continue;
                    }
                    let diff = s0.energy - st.energy;
                    acc += diff.min(0.0).exp();
                    acc_sym += 2.0 * diff.min(0.0).exp() / (1.0 + diff.exp());
                }
                if n == 0.0 {
                    continue;
                }
                let (want, want_sym) = (acc / n, acc_sym / n);
                p.transitions += 1;
                for (name, w) in [("mean_tree_accept", want), ("mean_tree_accept_sym", want_sym)] {
                    let got = f64_of(&r.stats, name);
                    let ok = matches!(got, Some(g) if (g - w).abs() <= 1e-12 * (1.0 + w.abs()));
                    if !ok {
                        p.violation(
                            format!("C07/trajectory-acceptance-statistic/{}", c.name),
                            format!("draw {d}: {name} = {got:?}, mean over the {n} leapfrogs of the recorded trajectory = {w} (divergent leapfrog present: {any_div})"),
                            json!({"config": c.name, "choices": ctx.choices()}),
                        );
                        stop = true;
                        return;
                    }
                }
                p.class(format!("accept-stat:{:?}:div{}", c.kind, any_div));
            }
        });
        total.lock().unwrap().merge(p);
    });
    total.into_inner().unwrap()
}

/// The divergence rule of one integration step, probed directly: a step is a divergence when its
/// energy error relative to the baseline it is given is ABOVE max_energy_error (or not finite) -
/// a step that ends far BELOW the baseline is an ordinary state. The baseline is an argument of
/// `Hamiltonian::leapfrog`, so both sides can be produced at will.
fn divergence_rule_probe(p: &mut Partial) {
    use nuts_rs::verif::{Direction, Hamiltonian, LeapfrogResult};
    use rand::SeedableRng;
    struct Nop;
    impl<MM: nuts_rs::Math, P: nuts_rs::verif::Point<MM>> nuts_rs::verif::Collector<MM, P> for Nop {}
    for kind in [KineticEnergyKind::Euclidean, KineticEnergyKind::ExactNormal] {
        for dim in [1usize, 2, 17] {
            for dir in [Direction::Forward, Direction::Backward] {
                for (offset, limit) in [(-10.0, 0.5), (-2000.0, 1000.0), (-0.06, 0.05), (10.0, 0.5), (2000.0, 1000.0), (0.06, 0.05), (0.0, 0.5)] {
                    let (mut math, spy) = SpyMath::new(Dens::new(target(dim.max(1))));
                    let mut mm = nv::diag_mass_matrix_new(&mut math, false);
                    nv::diag_mass_matrix_set(&mut mm, &mut math, &faer::Col::from_fn(dim, |_| 1.0), &faer::Col::from_fn(dim, |_| 0.0));
                    let mut h = TransformedHamiltonian::new(&mut math, mm, kind);
                    *h.step_size_mut() = 0.01;
                    let x: Vec<f64> = (0..dim).map(|i| 0.3 + 0.1 * i as f64).collect();
                    let Ok(mut st) = h.init_state(&mut math, &x) else { continue };
                    spy.borrow_mut().gaussian_script.push_back((0..dim).map(|i| 0.4 - 0.05 * i as f64).collect());
                    let mut rng = rand::rngs::ChaCha8Rng::seed_from_u64(1);
                    if h.initialize_trajectory(&mut math, &mut st, true, &mut rng).is_err() {
                        continue;
                    }
                    // energy error of the step = (energy after) - baseline ~ -offset
                    let baseline = st.point().energy() - offset;
                    let res = h.leapfrog(&mut math, &st, dir, 1.0, baseline, limit, &mut Nop);
                    p.evaluations += 1;
                    let want_divergence = offset > limit;
                    let got = match res {
                        LeapfrogResult::Ok(_) => Some(false),
                        LeapfrogResult::Divergence(_) => Some(true),
                        LeapfrogResult::Err(_) => None,
                    };
                    if got != Some(want_divergence) {
                        p.violation(
                            format!("C03/divergence-rule/{kind:?}/dim{dim}/{dir:?}/energy-error{offset}-limit{limit}"),
                            format!("a step whose energy error relative to its baseline is about {offset} with max_energy_error {limit}: divergence reported = {got:?}, expected {want_divergence}"),
                            json!({"kind": format!("{kind:?}"), "dim": dim, "energy_error": offset, "max_energy_error": limit}),
                        );
                    }
                    p.class(format!("divergence-rule:{kind:?}:{}", if want_divergence { "above" } else if offset < 0.0 { "below" } else { "inside" }));
                }
            }
        }
    }
}

pub fn run(tier: Tier, _replay: Option<String>) -> i32 {
    let mut report = Report::new(
        "C03",
        tier,
        "model_checking",
        "chain histories of the real NutsChain (diag / low-rank x Euclidean / ExactNormal; dims 0,1,2; maxdepth 0..3; mindepth 0,1; target_integration_time inside and beyond what maxdepth allows; tight / loose max_energy_error; optional injected divergence): every direction answer and every accept/reject answer within a reject budget, 2 (3) draws deep; each history is replayed on an independent mirror chain whose trajectories are judged by R-nuts. states = choice points, transitions = answers, traces validated = histories compared; distinct = (estimator, stop reason, depth, sign of index)",
    );
    report.assume("momentum scripted at Math::array_gaussian (deterministic sequence), jitter off so that the RNG is consulted by nuts::draw only");
    report.assume("histories whose smallest decision margin is below 1e-7 are counted as ill-conditioned and not judged");
    let mut cfgs = vec![];
    for lowrank in [false, true] {
        for kind in [KineticEnergyKind::Euclidean, KineticEnergyKind::ExactNormal] {
            for dim in [0usize, 1, 2] {
                for maxdepth in tier.pick(vec![0u64, 1, 2, 3], vec![0u64, 1, 2, 3, 4]) {
                    for mindepth in [0u64, 1] {
                        if mindepth > maxdepth {
                            continue;
                        }
                        for (tt, mee, fault) in [
                            (None, 1000.0, None),
                            (Some(0.7), 1000.0, None),
                            // a requested integration time that needs more doublings than maxdepth allows
                            (Some(6.0), 1000.0, None),
                            (None, 0.05, None),
                            (None, 1000.0, Some((14u64, FaultKind::Recoverable))),
                        ] {
                            if dim == 0 && (fault.is_some() || tt.is_some()) {
                                continue;
                            }
                            if lowrank && dim == 0 {
                                continue;
                            }
                            let n_draws = if maxdepth >= 3 { 2 } else { tier.pick(2, 3) };
                            for fixed_step in [None, Some(0.25), Some(0.9)] {
                            if fixed_step.is_some() && ((tt.is_some() && tt != Some(6.0)) || dim == 0) {
                                continue;
                            }
                            cfgs.push(Cfg {
                                fixed_step,
                                name: format!("{}-{kind:?}-dim{dim}-maxdepth{maxdepth}-mindepth{mindepth}-tt{tt:?}-mee{mee}-fault{}-step{fixed_step:?}", if lowrank { "lowrank" } else { "diag" }, fault.is_some()),
                                lowrank,
                                kind,
                                dim,
                                maxdepth,
                                mindepth,
                                target_time: tt,
                                max_energy_error: mee,
                                n_draws,
                                fault,
                                reject_budget: tier.pick(2, 3),
                                num_tune: 2,
                            far_start: false,
                            });
                            }
                        }
                    }
                }
            }
        }
    }
    // a start far in the tail with a tight energy-error limit: steps that LOSE more energy than the
    // limit are ordinary trajectory states (the divergence test is one-sided)
    for kind in [KineticEnergyKind::Euclidean, KineticEnergyKind::ExactNormal] {
        for dim in [1usize, 2] {
            for maxdepth in [2u64, 3] {
                for mee in [0.05, 0.5] {
                    for fixed_step in [Some(0.25), Some(0.9), Some(1.3), None] {
                        cfgs.push(Cfg {
                            fixed_step,
                            name: format!("diag-{kind:?}-dim{dim}-maxdepth{maxdepth}-mee{mee}-far-start-step{fixed_step:?}"),
                            lowrank: false,
                            kind,
                            dim,
                            maxdepth,
                            mindepth: 0,
                            target_time: None,
                            max_energy_error: mee,
                            n_draws: 2,
                            fault: None,
                            reject_budget: tier.pick(2, 3),
                            num_tune: 2,
                            far_start: true,
                        });
                    }
                }
            }
        }
    }
    // histories long enough for the mass-matrix adaptation to replace the transformation between
    // two trajectories (third warmup draw of a 10-draw warmup): the draw after the change starts
    // from a state that was whitened under the previous transformation
    for lowrank in [false, true] {
        for kind in [KineticEnergyKind::Euclidean, KineticEnergyKind::ExactNormal] {
            for dim in [1usize, 2] {
                for maxdepth in [1u64, 2] {
                    for fixed_step in [Some(0.25), None] {
                        if lowrank && dim < 2 {
                            continue;
                        }
                        cfgs.push(Cfg {
                            fixed_step,
                            name: format!("{}-{kind:?}-dim{dim}-maxdepth{maxdepth}-tune10-draws{}-step{fixed_step:?}", if lowrank { "lowrank" } else { "diag" }, tier.pick(4, 5)),
                            lowrank,
                            kind,
                            dim,
                            maxdepth,
                            mindepth: 0,
                            target_time: None,
                            max_energy_error: 1000.0,
                            n_draws: tier.pick(4, 5),
                            fault: None,
                            reject_budget: 1,
                            num_tune: 10,
                            far_start: false,
                        });
                    }
                }
            }
        }
    }
    report.bounds = json!({"configurations": cfgs.len(), "draws_per_history": "2-3 (4-5 for the warmup histories with a transformation change)", "reject_budget": tier.pick(2, 3)});
    mc_core::par_for_each(&cfgs, |_, c| {
        let mut p = Partial::new();
        let mut stop = false;
        let st = explore(Some(c.reject_budget), 300_000, |ctx: &mut Ctx| {
            if stop {
                return;
            }
            match run_real(c, ctx) {
                Err(e) => {
                    // a dimension-0 model or a fault may legitimately make set_position fail; a
                    // panic never is legitimate
                    if e.contains("panicked") {
                        p.violation(format!("C03/panic/{}", c.name), e, json!({"config": c.name, "choices": ctx.choices()}));
                        stop = true;
                    } else {
                        p.count("histories_ending_in_error", 1);
                    }
                }
                Ok((real, stream)) => match run_mirror(c, &stream) {
                    Err(e) => {
                        p.violation(format!("C03/mirror-failed/{}", c.name), e, json!({"config": c.name, "choices": ctx.choices()}));
                        stop = true;
                    }
                    Ok(mirror) => {
                        p.validated += 1;
                        if mirror.iter().take(mirror.len().saturating_sub(1)).any(|m| m.transform_changed) {
                            p.count("histories_with_a_transformation_change_between_draws", 1);
                        }
                        if !judge(c, &real, &mirror, &ctx.choices(), &mut p) {
                            stop = true;
                        }
                        if p.samples.is_empty() {
                            p.sample(json!({"config": c.name, "choices": ctx.choices(), "draws": real.iter().map(|r| json!({"pos": r.pos, "n_steps": r.num_steps, "diverging": r.diverging})).collect::<Vec<_>>()}));
                        }
                    }
                },
            }
        });
        match st {
            Ok(s) => p.add_explore(&s),
            // (after a violation the body stops early, which the explorer reports as a short replay)
            Err(e) => {
                if !stop {
                    p.violation(format!("C03/MACHINERY-replay-divergence/{}", c.name), e, json!({"config": c.name}))
                }
            }
        }
        report.merge(p);
    });
    {
        let mut p = Partial::new();
        divergence_rule_probe(&mut p);
        report.merge(p);
    }
    report.finish()
}
