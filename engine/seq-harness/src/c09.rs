//! C09 (and the history half of C06) — the warmup schedule, explored as an explicit-state search
//! over the *real* transition function.
//!
//! `GlobalStrategy::adapt` (diagonal and low-rank) is called directly, once per draw, with a
//! synthetic collector whose content is the explored event: {good draw, not-good draw (index 0 /
//! near a divergence), divergent draw}. Every event word of length num_tune (+2 posterior draws)
//! is executed for small num_tune (all words, lock-step with the reference automaton R-schedule
//! and with the reference dual averaging), and for larger num_tune the search de-duplicates on the
//! schedule's own counters (the schedule code reads nothing else).

use std::collections::BTreeSet;

use mc_core::{Partial, Report, Tier};
use nuts_rs::verif::{
    self as nv, AcceptanceRateCollector, AdaptStrategy, CombinedCollector, DiagAdaptStrategy,
    GlobalStrategy, Hamiltonian, LowRankMassMatrix, LowRankMassMatrixStrategy, NutsOptions,
    TransformedHamiltonian, Transformation,
};
use nuts_rs::{
    CpuMath, DiagAdaptExpSettings, EuclideanAdaptOptions, KineticEnergyKind, LowRankSettings, Math,
    StepSizeAdaptMethod,
};
use rand::rngs::ChaCha8Rng;
use rand::SeedableRng;
use serde_json::json;

use crate::common::models::{Dens, Target};
use crate::common::refmodel::RefDualAverage;

type M = CpuMath<Dens>;

#[derive(Clone, Copy, Debug, PartialEq, Eq, PartialOrd, Ord, Hash)]
enum Ev {
    Good,
    NotGood,
    Divergent,
}
const EVS: [Ev; 3] = [Ev::Good, Ev::NotGood, Ev::Divergent];

#[derive(Clone, Debug)]
struct Opts {
    lowrank: bool,
    num_tune: u64,
    early_window: f64,
    step_size_window: f64,
    switch_freq: u64,
    early_switch_freq: u64,
    update_freq: u64,
    /// product-alphabet option set: explored with the de-duplicated search for every num_tune
    bfs_only: bool,
    /// step size adapted with Adam instead of dual averaging
    adam: bool,
    growth: f64,
}

impl Opts {
    fn name(&self) -> String {
        format!(
            "{}{}-tune{}-ew{}-ssw{}-sf{}-esf{}-uf{}-g{}",
            if self.lowrank { "lowrank" } else { "diag" },
            if self.adam { "-adam" } else { "" },
            self.num_tune,
            self.early_window,
            self.step_size_window,
            self.switch_freq,
            self.early_switch_freq,
            self.update_freq,
            self.growth
        )
    }
}

/// R-schedule: the window automaton written from the property text.
#[derive(Clone, Debug, PartialEq, Eq, PartialOrd, Ord, Hash)]
struct RefSched {
    fg: u64,
    bg: u64,
    window: u64,
    last_update: u64,
    has_initial: bool,
    tuning: bool,
    // per-step outputs
    switched: bool,
    changed: bool,
    late: bool,
    research: bool,
    n_switches: u64,
}

impl RefSched {
    fn new(o: &Opts) -> Self {
        RefSched {
            fg: 1, // the initial point
            bg: 1,
            window: o.switch_freq,
            last_update: 0,
            has_initial: true,
            tuning: true,
            switched: false,
            changed: false,
            late: false,
            research: false,
            n_switches: 0,
        }
    }
    fn early_end(o: &Opts) -> u64 {
        (o.early_window * o.num_tune as f64) as u64
    }
    fn final_start(o: &Opts) -> u64 {
        o.num_tune
            .saturating_sub((o.step_size_window * o.num_tune as f64) as u64)
    }
    fn step(&mut self, o: &Opts, d: u64, e: Ev) {
        self.switched = false;
        self.changed = false;
        self.research = false;
        self.late = false;
        if d >= o.num_tune {
            self.tuning = false;
            return;
        }
        let final_start = Self::final_start(o);
        if d >= final_start {
            // final window: only the step size adapts, with the symmetric statistic
            self.late = true;
            return;
        }
        let early_end = Self::early_end(o);
        let is_early = d < early_end;
        if !is_early && d == early_end {
            // entering the main phase never shrinks the window
            self.window = self.window.max(self.bg);
        }
        let need = if is_early { o.early_switch_freq } else { self.window };
        if e == Ev::Good {
            self.fg += 1;
            self.bg += 1;
        }
        let next_window = if is_early {
            o.early_switch_freq
        } else {
            (self.window + 1).max((self.window as f64 * o.growth).round() as u64)
        };
        // another full window must still fit before the final step-size window
        let is_late = next_window + d > final_start;
        self.late = is_late;
        let mut force = false;
        if self.bg >= need && !is_late {
            self.fg = self.bg;
            self.bg = 0;
            self.switched = true;
            self.n_switches += 1;
            force = true;
            if !is_early {
                self.window = next_window;
            }
        }
        if (force || d - self.last_update >= o.update_freq) && self.fg >= 3 {
            self.changed = true;
            self.last_update = d;
        }
        if self.changed && self.has_initial {
            self.has_initial = false;
            self.research = true;
        }
    }
}

const MU: [f64; 2] = [0.4, -1.2];
const SIGMA: [f64; 2] = [0.6, 2.5];

fn synth_draw(d: u64) -> (Vec<f64>, Vec<f64>) {
    // distinct, deterministic, Gaussian-consistent (gradient of the diagonal normal target)
    let t = d as f64 + 1.0;
    let z = [(1.7 * t).sin() * 1.3 + 0.1 * t.cos(), (0.9 * t).cos() * 1.1 - 0.2 * (2.3 * t).sin()];
    let pos: Vec<f64> = (0..2).map(|i| MU[i] + SIGMA[i] * z[i]).collect();
    let grad: Vec<f64> = (0..2).map(|i| -(pos[i] - MU[i]) / (SIGMA[i] * SIGMA[i])).collect();
    (pos, grad)
}

fn accept_of(e: Ev) -> (f64, f64, u64) {
    match e {
        Ev::Good => (0.9, 0.35, 7),
        Ev::NotGood => (0.5, 0.2, 3),
        Ev::Divergent => (0.0, 0.0, 1),
    }
}

struct StepObs {
    fg: u64,
    bg: u64,
    window: u64,
    last_update: u64,
    has_initial: bool,
    tuning: bool,
    transform_id: i64,
    evals_in_adapt: u64,
    step_size: f64,
}

trait Driver {
    fn adapt(&mut self, d: u64, e: Ev) -> Result<StepObs, String>;
}

struct Drv<A: nv::MassMatrixAdaptStrategy<M>> {
    math: M,
    strategy: GlobalStrategy<M, A>,
    hamiltonian: TransformedHamiltonian<M, A::Transformation>,
    options: NutsOptions,
    rng: ChaCha8Rng,
    dens_log: crate::common::models::LogRc,
}

impl<A: nv::MassMatrixAdaptStrategy<M, Collector = nv::DrawGradCollector<M>>> Driver for Drv<A> {
    fn adapt(&mut self, d: u64, e: Ev) -> Result<StepObs, String> {
        let (pos, grad) = synth_draw(d);
        let (mean, sym, count) = accept_of(e);
        let c1 = AcceptanceRateCollector::verif_with(mean, sym, count, 0.0);
        let c2 = nv::draw_grad_collector(&mut self.math, &pos, &grad, e == Ev::Good);
        let collector: CombinedCollector<M, nv::TransformedPoint<M>, AcceptanceRateCollector, nv::DrawGradCollector<M>> =
            CombinedCollector::new(c1, c2);
        let state = self
            .hamiltonian
            .init_state(&mut self.math, &pos)
            .map_err(|e| format!("init_state: {e}"))?;
        let before = self.dens_log.borrow().n_eval;
        self.strategy
            .adapt(
                &mut self.math,
                &mut self.options,
                &mut self.hamiltonian,
                d,
                &collector,
                &state,
                &mut self.rng,
            )
            .map_err(|e| format!("adapt: {e}"))?;
        let after = self.dens_log.borrow().n_eval;
        let s = self.strategy.verif_schedule_state();
        Ok(StepObs {
            fg: s.foreground_count,
            bg: s.background_count,
            window: s.current_window_size,
            last_update: s.last_update,
            has_initial: s.has_initial_mass_matrix,
            tuning: self.strategy.is_tuning(),
            transform_id: self.hamiltonian.transformation().transformation_id(&mut self.math),
            evals_in_adapt: after - before,
            step_size: self.hamiltonian.step_size(),
        })
    }
}

fn adapt_options<S: std::fmt::Debug + Default>(o: &Opts, mm: S) -> EuclideanAdaptOptions<S> {
    let mut a = EuclideanAdaptOptions::<S>::default();
    a.mass_matrix_options = mm;
    a.early_window = o.early_window;
    a.step_size_window = o.step_size_window;
    a.mass_matrix_switch_freq = o.switch_freq;
    a.early_mass_matrix_switch_freq = o.early_switch_freq;
    a.mass_matrix_update_freq = o.update_freq;
    a.mass_matrix_window_growth = o.growth;
    a.step_size_settings.jitter = None;
    a.step_size_settings.adapt_options.method = if o.adam { StepSizeAdaptMethod::Adam } else { StepSizeAdaptMethod::DualAverage };
    a
}

fn make_driver(o: &Opts) -> Result<(Box<dyn Driver>, f64), String> {
    let dens = Dens::new(Target::DiagNormal {
        mu: MU.to_vec(),
        sigma: SIGMA.to_vec(),
    });
    let dens_log = dens.log.clone();
    let mut math = CpuMath::new(dens);
    let mut rng = ChaCha8Rng::seed_from_u64(5);
    let mut options = NutsOptions::default();
    let start = [0.1, 0.2];
    if o.lowrank {
        let a = adapt_options(o, LowRankSettings::default());
        let mut strategy = GlobalStrategy::<M, LowRankMassMatrixStrategy>::new(&mut math, a, o.num_tune, 0);
        let mm = LowRankMassMatrix::new(&mut math, LowRankSettings::default());
        let mut hamiltonian = TransformedHamiltonian::new(&mut math, mm, KineticEnergyKind::Euclidean);
        strategy
            .init(&mut math, &mut options, &mut hamiltonian, &start, &mut rng)
            .map_err(|e| format!("{e}"))?;
        let s0 = hamiltonian.step_size();
        Ok((
            Box::new(Drv { math, strategy, hamiltonian, options, rng, dens_log }),
            s0,
        ))
    } else {
        let a = adapt_options(o, DiagAdaptExpSettings::default());
        let mut strategy = GlobalStrategy::<M, DiagAdaptStrategy<M>>::new(&mut math, a, o.num_tune, 0);
        let mm = nv::diag_mass_matrix_new(&mut math, false);
        let mut hamiltonian = TransformedHamiltonian::new(&mut math, mm, KineticEnergyKind::Euclidean);
        strategy
            .init(&mut math, &mut options, &mut hamiltonian, &start, &mut rng)
            .map_err(|e| format!("{e}"))?;
        let s0 = hamiltonian.step_size();
        Ok((
            Box::new(Drv { math, strategy, hamiltonian, options, rng, dens_log }),
            s0,
        ))
    }
}

/// Execute one event word on a fresh real strategy, in lock-step with the reference models.
/// Returns the canonical schedule state reached (for de-duplication) or None on violation.
fn run_word(o: &Opts, word: &[Ev], p: &mut Partial, check_step_size: bool) -> Option<(u64, u64, u64, u64, bool)> {
    let name = o.name();
    let wname: String = word
        .iter()
        .map(|e| match e {
            Ev::Good => 'g',
            Ev::NotGood => 'n',
            Ev::Divergent => 'd',
        })
        .collect();
    let replay = json!({"options": format!("{o:?}"), "word": wname});
    let (mut drv, s0) = match std::panic::catch_unwind(|| make_driver(o)) {
        Ok(Ok(d)) => d,
        Ok(Err(e)) => {
            p.violation(format!("C09/strategy-init-failed/{name}"), e, replay);
            return None;
        }
        Err(_) => {
            p.violation(format!("C06/strategy-construction-panicked/{name}"), String::new(), replay);
            return None;
        }
    };
    let mut r = RefSched::new(o);
    let mut da = RefDualAverage::new(0.75, 10.0, 0.05, std::f64::consts::PI, s0);
    // with Adam the recurrence itself is C07's business (R-adam); here the real estimator is fed
    // the statistic the schedule prescribes and must give the step size the strategy installs
    let mut adam = nuts_rs::verif::Adam::new(nuts_rs::verif::AdamOptions::default(), s0);
    let final_start = RefSched::final_start(o);
    let mut frozen_id: Option<i64> = None;
    let mut last = (0, 0, 0, 0, true);
    for (d, e) in word.iter().enumerate() {
        let d = d as u64;
        let obs = match std::panic::catch_unwind(std::panic::AssertUnwindSafe(|| drv.adapt(d, *e))) {
            Ok(Ok(o)) => o,
            Ok(Err(m)) => {
                p.violation(format!("C09/adapt-returned-error/{name}"), format!("draw {d} of {wname}: {m}"), replay);
                return None;
            }
            Err(_) => {
                p.violation(format!("C09/adapt-panicked/{name}"), format!("draw {d} of {wname}"), replay);
                return None;
            }
        };
        p.transitions += 1;
        r.step(o, d, *e);
        let mut bad = |oracle: &str, prop: &str, detail: String, p: &mut Partial| {
            p.violation(format!("{prop}/{oracle}/{name}"), format!("draw {d} of word {wname}: {detail}"), replay.clone());
        };
        // ---- lock-step comparison with R-schedule (C09) ----
        if d < o.num_tune {
            if (obs.fg, obs.bg) != (r.fg, r.bg) {
                bad("estimator-window-counts", "C09", format!("foreground/background = {}/{} but the schedule prescribes {}/{} (switch expected: {})", obs.fg, obs.bg, r.fg, r.bg, r.switched), p);
                return None;
            }
            if obs.window != r.window && d < final_start {
                bad("window-size", "C09", format!("window {} vs {}", obs.window, r.window), p);
                return None;
            }
            if obs.last_update != r.last_update || obs.has_initial != r.has_initial {
                bad("update-bookkeeping", "C09", format!("last_update {} (ref {}), has_initial {} (ref {})", obs.last_update, r.last_update, obs.has_initial, r.has_initial), p);
                return None;
            }
            // the first transformation change re-runs the step-size search (density evaluations
            // happen inside adapt), nothing else evaluates the density
            if r.research != (obs.evals_in_adapt > 0) {
                bad("step-size-search-rerun", "C09", format!("search expected: {}, density evaluations inside adapt: {}", r.research, obs.evals_in_adapt), p);
                return None;
            }
        }
        // ---- tuning flag and frozen kernel (C06) ----
        if obs.tuning != r.tuning {
            bad("tuning-flag", "C06", format!("is_tuning={} expected {}", obs.tuning, r.tuning), p);
            return None;
        }
        if d + 1 >= final_start.max(1) {
            // the transformation in force after adapt(final_start - 1) must stay
            match frozen_id {
                None => frozen_id = Some(obs.transform_id),
                Some(f) if f != obs.transform_id => {
                    bad("transformation-changed-in-final-window", "C06", format!("id {} -> {}", f, obs.transform_id), p);
                    return None;
                }
                _ => {}
            }
        }
        // ---- step size follows dual averaging of the right statistic ----
        if check_step_size {
            let (mean, sym, _) = accept_of(*e);
            if d < o.num_tune {
                if r.research {
                    // the search picked a new initial step: re-seed the reference from it
                    da = RefDualAverage::new(0.75, 10.0, 0.05, std::f64::consts::PI, obs.step_size);
                    adam = nuts_rs::verif::Adam::new(nuts_rs::verif::AdamOptions::default(), obs.step_size);
                    // (the estimator had been advanced before the re-initialisation replaced it)
                } else {
                    da.advance(if r.late { sym } else { mean }, 0.8);
                    adam.advance(if r.late { sym } else { mean }, 0.8);
                    let is_last = d + 1 == o.num_tune;
                    let expect = if o.adam { adam.current_step_size() } else if is_last { da.step_bar() } else { da.step() };
                    if !mc_core::rel_close(obs.step_size, expect, 1e-12, 0.0) {
                        bad(
                            "step-size-does-not-follow-dual-averaging",
                            "C09",
                            format!("step size {} but dual averaging of the {} statistic gives {}", obs.step_size, if r.late { "symmetric" } else { "plain" }, expect),
                            p,
                        );
                        return None;
                    }
                }
            } else if !mc_core::rel_close(obs.step_size, if o.adam { adam.current_step_size() } else { da.step_bar() }, 1e-12, 0.0) {
                bad("post-warmup-step-size", "C06", format!("{} vs averaged {}", obs.step_size, da.step_bar()), p);
                return None;
            }
        }
        p.class(format!(
            "{}:{}:{}:{}:{}",
            if o.lowrank { "lr" } else { "dg" },
            r.switched as u8,
            r.changed as u8,
            r.late as u8,
            r.research as u8
        ));
        last = (obs.fg, obs.bg, obs.window, obs.last_update, obs.has_initial);
    }
    p.validated += 1;
    p.evaluations += 1;
    Some(last)
}

fn all_words(len: usize) -> Vec<Vec<Ev>> {
    let mut out: Vec<Vec<Ev>> = vec![vec![]];
    for _ in 0..len {
        let mut next = Vec::with_capacity(out.len() * 3);
        for w in &out {
            for e in EVS {
                let mut t = w.clone();
                t.push(e);
                next.push(t);
            }
        }
        out = next;
    }
    out
}

/// Draws older than two windows never influence the transformation: two histories that differ
/// only in their first window must give bit-identical transformations after two window switches.
/// Exhaustive over window lengths (n1, n2, n3) in 1..=4 and the three estimators; the synthetic
/// draws/gradients are deliberately not Gaussian-consistent (stale sums cannot cancel).
fn stale_window_check(p: &mut Partial) {
    use nuts_rs::verif::MassMatrixAdaptStrategy as MM;
    let pt = |k: usize, variant: f64| -> (Vec<f64>, Vec<f64>) {
        let t = k as f64 + 1.0 + variant;
        (
            vec![(1.3 * t).sin() * 2.0 + 0.3 * t, (0.7 * t).cos() - 0.1 * t * t * 0.05],
            vec![-(0.9 * t).cos() * 1.7 - 0.2, (1.9 * t).sin() * 0.6 + 0.05 * t],
        )
    };
    for est in 0..3usize {
        for n1 in 1..=4usize {
            for n2 in 1..=4usize {
                for n3 in 1..=4usize {
                    if n2 + n3 < 3 {
                        continue;
                    }
                    let mut outs: Vec<Vec<u64>> = vec![];
                    for variant in [0.0, 37.5] {
                        let mut math = CpuMath::new(Dens::new(Target::std_normal(2)));
                        let mut feed = |strat: &mut dyn FnMut(&mut M, &nv::DrawGradCollector<M>), sw: &mut dyn FnMut(&mut M), math: &mut M| {
                            for k in 0..n1 {
                                let (x, g) = pt(k, variant);
                                let c = nv::draw_grad_collector(math, &x, &g, true);
                                strat(math, &c);
                            }
                            sw(math);
                            for k in 0..n2 {
                                let (x, g) = pt(100 + k, 0.0);
                                let c = nv::draw_grad_collector(math, &x, &g, true);
                                strat(math, &c);
                            }
                            sw(math);
                            for k in 0..n3 {
                                let (x, g) = pt(200 + k, 0.0);
                                let c = nv::draw_grad_collector(math, &x, &g, true);
                                strat(math, &c);
                            }
                        };
                        let bits: Vec<u64> = if est < 2 {
                            let strat = std::cell::RefCell::new(DiagAdaptStrategy::<M>::new(&mut math, DiagAdaptExpSettings { store_mass_matrix: false, use_grad_based_estimate: est == 0 }, 0, 0));
                            feed(&mut |m, c| strat.borrow_mut().update_estimators(m, c), &mut |m| strat.borrow_mut().switch(m), &mut math);
                            let mut mm = nv::diag_mass_matrix_new(&mut math, false);
                            let changed = strat.borrow().adapt(&mut math, &mut mm);
                            let mut b: Vec<u64> = nv::diag_mass_matrix_stds(&mm, &mut math).iter().map(|x| x.to_bits()).collect();
                            b.extend(nv::diag_mass_matrix_mean(&mm, &mut math).iter().map(|x| x.to_bits()));
                            b.push(changed as u64);
                            b
                        } else {
                            let strat = std::cell::RefCell::new(<LowRankMassMatrixStrategy as MM<M>>::new(&mut math, LowRankSettings::default(), 0, 0));
                            feed(
                                &mut |m, c| <LowRankMassMatrixStrategy as MM<M>>::update_estimators(&mut strat.borrow_mut(), m, c),
                                &mut |m| <LowRankMassMatrixStrategy as MM<M>>::switch(&mut strat.borrow_mut(), m),
                                &mut math,
                            );
                            let mut mm = LowRankMassMatrix::new(&mut math, LowRankSettings::default());
                            let changed = <LowRankMassMatrixStrategy as MM<M>>::adapt(&strat.borrow(), &mut math, &mut mm);
                            // observe the transformation through its action on a probe point
                            let x = faer::Col::from_fn(2, |i| 0.4 - 0.9 * i as f64);
                            let g = faer::Col::from_fn(2, |i| -0.3 + 0.5 * i as f64);
                            let mut y = math.new_array();
                            let mut gy = math.new_array();
                            let ld = mm.inv_transform_normalize(&mut math, &x, &g, &mut y, &mut gy).unwrap_or(f64::NAN);
                            let mut b: Vec<u64> = math.box_array(&y).iter().map(|v| v.to_bits()).collect();
                            b.extend(math.box_array(&gy).iter().map(|v| v.to_bits()));
                            b.push(ld.to_bits());
                            b.push(changed as u64);
                            b
                        };
                        outs.push(bits);
                    }
                    p.evaluations += 2;
                    p.transitions += (2 * (n1 + n2 + n3)) as u64;
                    if outs[0] != outs[1] {
                        p.violation(
                            format!("C09/draws-older-than-two-windows-influence-the-transformation/{}", ["diag-grad", "diag-draw", "lowrank"][est]),
                            format!("windows of {n1}, {n2}, {n3} draws: changing only the first window changes the transformation estimated after two switches"),
                            json!({"estimator": est, "windows": [n1, n2, n3]}),
                        );
                        return;
                    }
                    p.class(format!("stale:{est}"));
                }
            }
        }
    }
    p.validated += 1;
}

/// Which draws enter the windows: the real collectors' `register_draw` is called with states at
/// every trajectory index -8..=8 (built with real leapfrog steps) x {not divergent, divergent} and
/// the real estimators report whether their window grew. Judged against the property's wording:
/// a draw that did not move is never counted, a non-divergent draw that moved always is, a
/// divergent draw is not.
fn collector_filter(p: &mut Partial) {
    use nuts_rs::verif::{Collector, Direction, LeapfrogResult, MassMatrixAdaptStrategy, Point, SampleInfo};
    let d = 2usize;
    let mut math: M = CpuMath::new(Dens::new(Target::std_normal(d)));
    let mut mm = nv::diag_mass_matrix_new(&mut math, false);
    nv::diag_mass_matrix_set(&mut mm, &mut math, &faer::Col::from_fn(d, |_| 1.0), &faer::Col::from_fn(d, |_| 0.0));
    let mut h = TransformedHamiltonian::new(&mut math, mm, KineticEnergyKind::Euclidean);
    *h.step_size_mut() = 0.05;
    let mut rng = ChaCha8Rng::seed_from_u64(4);
    let setup_failed = |p: &mut Partial, what: &str| p.violation("C09/MACHINERY-filter-setup".to_string(), what.to_string(), json!({}));
    let Ok(mut st0) = h.init_state(&mut math, &[0.4, -0.3]) else { return setup_failed(p, "init_state") };
    if h.initialize_trajectory(&mut math, &mut st0, true, &mut rng).is_err() {
        return setup_failed(p, "initialize_trajectory");
    }
    struct Nop;
    impl<MM: Math, P: Point<MM>> Collector<MM, P> for Nop {}
    let mut states = vec![(0i64, st0.clone())];
    for dir in [Direction::Forward, Direction::Backward] {
        let mut cur = st0.clone();
        for _ in 0..8 {
            let e0 = cur.point().initial_energy();
            match h.leapfrog(&mut math, &cur, dir, 1.0, e0, f64::INFINITY, &mut Nop) {
                LeapfrogResult::Ok(n) => {
                    states.push((n.index_in_trajectory(), n.clone()));
                    cur = n;
                }
                _ => return setup_failed(p, "leapfrog"),
            }
        }
    }
    let div = || nuts_rs::DivergenceInfo {
        start_momentum: None,
        start_location: None,
        start_gradient: None,
        end_location: None,
        energy_error: Some(2000.0),
        end_idx_in_trajectory: Some(9),
        start_idx_in_trajectory: Some(8),
        logp_function_error: None,
    };
    for (idx, st) in &states {
        for diverging in [false, true] {
            for lowrank in [false, true] {
                let info = SampleInfo { depth: 4, divergence_info: if diverging { Some(div()) } else { None }, reached_maxdepth: false };
                let counted = if lowrank {
                    let mut strat = <LowRankMassMatrixStrategy as MassMatrixAdaptStrategy<M>>::new(&mut math, LowRankSettings::default(), 0, 0);
                    let mut c = <LowRankMassMatrixStrategy as MassMatrixAdaptStrategy<M>>::new_collector(&strat, &mut math);
                    Collector::<M, nuts_rs::verif::TransformedPoint<M>>::register_draw(&mut c, &mut math, st, &info);
                    <LowRankMassMatrixStrategy as MassMatrixAdaptStrategy<M>>::update_estimators(&mut strat, &mut math, &c);
                    <LowRankMassMatrixStrategy as MassMatrixAdaptStrategy<M>>::background_count(&strat)
                } else {
                    let mut strat = DiagAdaptStrategy::<M>::new(&mut math, DiagAdaptExpSettings::default(), 0, 0);
                    let mut c = strat.new_collector(&mut math);
                    Collector::<M, nuts_rs::verif::TransformedPoint<M>>::register_draw(&mut c, &mut math, st, &info);
                    strat.update_estimators(&mut math, &c);
                    strat.background_count()
                };
                p.evaluations += 1;
                p.transitions += 1;
                let est = if lowrank { "lowrank" } else { "diag" };
                let replay = json!({"index_in_trajectory": idx, "diverging": diverging, "estimator": est});
                if counted > 1 {
                    p.violation(format!("C09/draw-counted-more-than-once/index{idx:+}/{est}"), format!("window grew by {counted}"), replay.clone());
                }
                let counted = counted >= 1;
                p.count(if counted { "filter_probes_counted" } else { "filter_probes_not_counted" }, 1);
                if *idx == 0 && counted {
                    p.violation(format!("C09/stuck-draw-counted/diverging-{diverging}/{est}"), "a draw that did not move (index_in_trajectory 0) entered the adaptation window", replay);
                } else if *idx != 0 && !diverging && !counted {
                    p.violation(format!("C09/accepted-draw-not-counted/index{idx:+}/{est}"), "a non-divergent draw that moved did not enter the adaptation window", replay);
                } else if *idx != 0 && diverging && counted {
                    p.violation(format!("C09/divergent-draw-counted/index{idx:+}/{est}"), format!("a divergent draw (selected state {idx:+} steps from the start) entered the adaptation window"), replay);
                }
                p.class(format!("filter:{}:{}:{}", idx.signum(), diverging, counted));
            }
        }
    }
}

/// Which acceptance statistic steers the step size in which phase (used by C07): the real
/// `GlobalStrategy::adapt` with dual averaging and with Adam, every event word of a short warmup
/// in lock-step with the reference recurrences fed with the plain statistic in the early phase and
/// the symmetric one in the late phase. Keys are re-labelled for C07.
pub fn step_size_statistic_partial(_tier: Tier) -> Partial {
    let mut p = Partial::new();
    for adam in [false, true] {
        for (nt, ew, ssw) in [(4u64, 0.3, 0.15), (5, 0.3, 0.5), (6, 0.5, 0.3)] {
            let o = Opts { lowrank: false, num_tune: nt, early_window: ew, step_size_window: ssw, switch_freq: 3, early_switch_freq: 2, update_freq: 1, growth: 1.5, bfs_only: false, adam };
            for w in all_words(nt as usize + 2) {
                if run_word(&o, &w, &mut p, true).is_none() {
                    break;
                }
            }
        }
    }
    for v in p.violations.iter_mut() {
        v.key = v.key.replacen("C09/", "C07/schedule-level/", 1);
    }
    p
}

pub fn run(tier: Tier, _replay: Option<String>) -> i32 {
    let mut report = Report::new(
        "C09",
        tier,
        "model_checking",
        "explicit-state search over the real GlobalStrategy::adapt (diagonal and low-rank): events {good, not-good, divergent} per draw; (i) every event word for num_tune <= N_all (+2 posterior draws) in lock-step with the reference schedule automaton and reference dual averaging, (ii) breadth-first search with de-duplication on (draw, foreground, background, window, last_update, has_initial) for larger num_tune; option alphabets for early_window, step_size_window, switch/update frequencies, growth. states = distinct canonical schedule states, transitions = adapt calls compared; distinct = (estimator, switched, changed, late, search-rerun) classes",
    );
    report.assume("synthetic collectors (hook H1) stand for the per-draw statistics a trajectory would produce; Gaussian-consistent draws/gradients");
    report.assume("de-duplication is sound for the schedule counters because the schedule code reads no other state; the dual-averaging comparison is only done in the non-deduplicated mode");
    let n_all: u64 = tier.pick(7, 9);
    let n_dedup: u64 = tier.pick(14, 24);
    let mut opts = vec![];
    for lowrank in [false, true] {
        let alph: Vec<(f64, f64, u64, u64, u64, f64)> = match tier {
            Tier::Quick => vec![
                (0.3, 0.15, 3, 2, 1, 1.5),
                (0.5, 0.3, 2, 1, 2, 1.0),
                (0.0, 0.0, 1, 1, 1, 2.0),
                (0.3, 0.15, 80, 10, 1, 1.5),
                // early window overlapping the final step-size window
                (0.5, 0.6, 2, 1, 1, 1.5),
                (0.3, 1.0, 3, 2, 1, 1.0),
                // early windows long enough to be estimated from (>= 3 draws) and a regular update
                // period longer than them: the refresh at an early switch is then the only one
                (0.6, 0.15, 6, 3, 5, 1.5),
                // early windows longer than the configured main window: at the early -> main
                // transition foreground, background and the configured size all differ
                (0.5, 0.15, 2, 3, 1, 1.5),
            ],
            Tier::Thorough => {
                let mut v = vec![];
                for ew in [0.0, 0.3, 0.6] {
                    for ssw in [0.0, 0.15, 0.5, 1.0] {
                        for (sf, esf) in [(1, 1), (3, 2), (2, 3), (6, 3), (80, 10)] {
                            for uf in [1, 5] {
                                for g in [1.0, 1.5] {
                                    v.push((ew, ssw, sf, esf, uf, g));
                                }
                            }
                        }
                    }
                }
                v
            }
        };
        for (ew, ssw, sf, esf, uf, g) in alph {
            for nt in 1..=n_dedup {
                opts.push(Opts {
                    lowrank,
                    num_tune: nt,
                    early_window: ew,
                    step_size_window: ssw,
                    switch_freq: sf,
                    early_switch_freq: esf,
                    update_freq: uf,
                    growth: g,
                    bfs_only: false,
                    adam: false,
                });
                if nt <= n_all && tier == Tier::Quick || nt <= 6 {
                    opts.push(Opts { lowrank, num_tune: nt, early_window: ew, step_size_window: ssw, switch_freq: sf, early_switch_freq: esf, update_freq: uf, growth: g, bfs_only: false, adam: true });
                }
            }
        }
        // the full product of small option alphabets, de-duplicated search only
        let max_nt_product: u64 = tier.pick(10, 16);
        for ew in [0.0, 0.3, 0.5, 0.6] {
            for ssw in [0.0, 0.15, 0.5] {
                for sf in [1u64, 2, 3, 6] {
                    for esf in [1u64, 2, 3] {
                        for uf in [1u64, 2, 5] {
                            for g in [1.0, 1.5] {
                                for nt in 1..=max_nt_product {
                                    opts.push(Opts { lowrank, num_tune: nt, early_window: ew, step_size_window: ssw, switch_freq: sf, early_switch_freq: esf, update_freq: uf, growth: g, bfs_only: true, adam: false });
                                }
                            }
                        }
                    }
                }
            }
        }
    }
    {
        let mut p = Partial::new();
        stale_window_check(&mut p);
        collector_filter(&mut p);
        report.merge(p);
    }
    report.bounds = json!({"all_words_up_to_num_tune": n_all, "dedup_search_up_to_num_tune": n_dedup, "option_sets": opts.len()});
    mc_core::par_for_each(&opts, |_, o| {
        let mut p = Partial::new();
        if o.num_tune <= n_all && !o.bfs_only {
            // (i) every word, no de-duplication, with the step-size reference
            let mut seen: BTreeSet<(u64, u64, u64, u64, u64, bool)> = BTreeSet::new();
            for w in all_words(o.num_tune as usize + 2) {
                if let Some(k) = run_word(o, &w, &mut p, true) {
                    seen.insert((w.len() as u64, k.0, k.1, k.2, k.3, k.4));
                } else {
                    break;
                }
            }
            p.states += seen.len() as u64;
            if p.samples.is_empty() {
                p.sample(json!({"options": o.name(), "mode": "all words", "words": 3u64.pow(o.num_tune as u32 + 2)}));
            }
        } else {
            // (ii) BFS over histories, de-duplicated on the schedule's own counters
            let mut seen: BTreeSet<(u64, u64, u64, u64, u64, bool)> = BTreeSet::new();
            let mut frontier: Vec<Vec<Ev>> = vec![vec![]];
            let total = o.num_tune as usize + 1;
            let mut ok = true;
            for _depth in 0..total {
                let mut next = vec![];
                for h in &frontier {
                    for e in EVS {
                        let mut w = h.clone();
                        w.push(e);
                        match run_word(o, &w, &mut p, false) {
                            Some(k) => {
                                if seen.insert((w.len() as u64, k.0, k.1, k.2, k.3, k.4)) {
                                    next.push(w);
                                }
                            }
                            None => {
                                ok = false;
                            }
                        }
                    }
                    if !ok {
                        break;
                    }
                }
                if !ok {
                    break;
                }
                frontier = next;
            }
            p.states += seen.len() as u64;
            if p.samples.is_empty() {
                p.sample(json!({"options": o.name(), "mode": "bfs with dedup", "distinct_states": seen.len()}));
            }
        }
        report.merge(p);
    });
    report.finish()
}
