//! C19 — settings survive serialisation and reproduce the same chain.
//!
//! For every preset: the default settings and every single-field substitution over a per-type
//! alphabet (both booleans, integer / float edge values, None/Some, every enum variant, nested
//! option structs), in thorough also all pairs of substitutions:
//!   to_value -> from_value -> to_value is a fixed point and keeps every field,
//!   every field the serialiser emits equals what went in; fields it leaves out are kept in the
//!   alphabet by a recorded field inventory and judged at the value level (Debug identity),
//!   a chain built from the round-tripped settings draws bit-identical values.

use std::collections::BTreeSet;

use mc_core::{Partial, Report, Tier};
use nuts_rs::Settings;
use serde_json::{json, Value};

use crate::common::models::{Dens, Target};
use crate::common::runner::*;

/// paths to all leaves of a JSON value
fn leaves(v: &Value, path: &mut Vec<String>, out: &mut Vec<Vec<String>>) {
    match v {
        Value::Object(m) => {
            for (k, x) in m {
                path.push(k.clone());
                leaves(x, path, out);
                path.pop();
            }
        }
        _ => out.push(path.clone()),
    }
}

fn get_path<'a>(v: &'a Value, path: &[String]) -> &'a Value {
    let mut cur = v;
    for k in path {
        cur = &cur[k];
    }
    cur
}

fn set_path(v: &mut Value, path: &[String], new: Value) {
    let mut cur = v;
    for k in &path[..path.len() - 1] {
        cur = cur.get_mut(k).unwrap();
    }
    cur[path.last().unwrap()] = new;
}

fn keys_rec(v: &Value, out: &mut BTreeSet<String>) {
    if let Value::Object(m) = v {
        for (k, x) in m {
            out.insert(k.clone());
            keys_rec(x, out);
        }
    }
}

/// Field inventory of the six presets' default settings, recorded from the tree the harness was
/// written against (`data/c19_templates.json`). The leaf alphabet is taken from the union of this
/// inventory and what the serialiser under test emits, so a serialiser that starts to leave a
/// block out does not silently shrink the set of fields that are substituted.
const TEMPLATES: &str = include_str!("../data/c19_templates.json");

fn merge(cur: &Value, tmpl: &Value) -> Value {
    match (cur, tmpl) {
        (Value::Object(c), Value::Object(t)) => {
            let mut out = c.clone();
            for (k, tv) in t {
                let merged = match c.get(k) {
                    Some(cv) => merge(cv, tv),
                    None => tv.clone(),
                };
                out.insert(k.clone(), merged);
            }
            Value::Object(out)
        }
        _ => cur.clone(),
    }
}

/// `a` agrees with `b` wherever both have a value (absent == null == nothing to compare)
fn agree_where_both(a: &Value, b: &Value) -> bool {
    match (a, b) {
        (Value::Object(x), Value::Object(y)) => x.iter().all(|(k, xv)| match y.get(k) {
            Some(yv) if !xv.is_null() && !yv.is_null() => agree_where_both(xv, yv),
            _ => true,
        }),
        _ => a == b,
    }
}

fn has_path(v: &Value, path: &[String]) -> bool {
    let mut cur = v;
    for k in path {
        match cur.get(k) {
            Some(x) => cur = x,
            None => return false,
        }
    }
    !cur.is_null()
}

fn alphabet(old: &Value) -> Vec<(Value, bool)> {
    // (candidate, must_deserialize)
    let enums = [
        "Euclidean",
        "ExactNormal",
        "Microcanonical",
        "EuclideanEarlyThenMicrocanonical",
        "DualAverage",
        "Adam",
    ];
    match old {
        Value::Bool(b) => vec![(json!(!b), true), (json!(*b), true)],
        Value::Number(n) if n.is_u64() || n.is_i64() => vec![
            (json!(0u64), true),
            (json!(1u64), true),
            (json!(2u64), true),
            (json!(7u64), true),
            (json!(1000u64), true),
            (json!(u32::MAX as u64 + 17), true),
            // not representable as f64: 2^53 + 1 and a full 64-bit pattern
            (json!((1u64 << 53) + 1), true),
            (json!(0x9E37_79B9_7F4A_7C15u64), false),
            (json!(null), false),
        ],
        Value::Number(_) => vec![
            (json!(0.0), true),
            (json!(1e-3), true),
            (json!(0.5), true),
            (json!(0.999), true),
            // (round 13, after C19k) the "neutral" values a serialiser is tempted to treat as a
            // sentinel: a factor of exactly one, two, minus one
            (json!(1.0), true),
            (json!(2.0), true),
            (json!(-1.0), true),
            (json!(1.5), true),
            (json!(1.23456789012345e15), true),
            (json!(5e-324), true),
            (json!(-2.5), true),
            (json!(null), false),
        ],
        Value::Null => vec![(json!(2.5), false), (json!(0.1), false), (json!(null), true)],
        Value::String(_) => {
            let mut v: Vec<(Value, bool)> = enums.iter().map(|e| (json!(e), false)).collect();
            v.push((json!({"Fixed": 0.25}), false));
            v
        }
        _ => vec![],
    }
}

/// field names of the Debug rendering whose value is not `None` (a `None` may legitimately be
/// left out of the JSON; whether it comes back as `None` is decided by the round-trip oracles)
fn debug_keys<S: std::fmt::Debug>(s: &S) -> BTreeSet<String> {
    let txt = format!("{s:#?}");
    let mut out = BTreeSet::new();
    for line in txt.lines() {
        let l = line.trim();
        if let Some(i) = l.find(':') {
            let k = &l[..i];
            let val = l[i + 1..].trim().trim_end_matches(',');
            if !k.is_empty() && k.chars().all(|c| c.is_ascii_alphanumeric() || c == '_') && val != "None" {
                out.insert(k.to_string());
            }
        }
    }
    out
}

/// JSON with null-valued object entries removed (an absent key and an explicit null are the same
/// statement about an optional field)
fn strip_nulls(v: &Value) -> Value {
    match v {
        Value::Object(m) => Value::Object(m.iter().filter(|(_, x)| !x.is_null()).map(|(k, x)| (k.clone(), strip_nulls(x))).collect()),
        Value::Array(a) => Value::Array(a.iter().map(strip_nulls).collect()),
        x => x.clone(),
    }
}

fn chain_fingerprint<S: Settings>(s: &S, n: usize) -> String {
    let target = Target::DiagNormal {
        mu: vec![0.3, -1.0, 2.0],
        sigma: vec![0.5, 1.0, 3.0],
    };
    let dens = Dens::new(target);
    dens.log.borrow_mut().eval_budget = Some(200_000);
    let res = run_chain(s, dens, 11, &[0.1, 0.2, -0.3], n);
    let mut out = format!("{:?}|", res.end);
    for d in &res.draws {
        out.push_str(&format!(
            "{:?}/{:?}/{}/{}/{:?}/{:?};",
            d.pos, d.step_size, d.tuning, d.diverging, d.num_steps, d.stats
        ));
    }
    out
}

/// the `sampler_settings` attribute a Zarr trace created for these settings carries (sync writer
/// over a memory store, async writer over an in-memory object store), read with a fresh reader
fn zarr_metadata<S: Settings + Default>(s: &S) -> Result<Vec<(&'static str, Value)>, String> {
    use nuts_rs::verif::StorageConfig;
    use std::sync::Arc;
    let math = nuts_rs::CpuMath::new(Dens::new(Target::DiagNormal { mu: vec![0.0, 0.0], sigma: vec![1.0, 1.0] }));
    let attr = |store: Arc<zarrs::storage::store::MemoryStore>| -> Result<Value, String> {
        let g = zarrs::group::Group::open(store, "/").map_err(|e| format!("open root group: {e}"))?;
        g.attributes().get("sampler_settings").cloned().ok_or_else(|| "root group has no sampler_settings attribute".to_string())
    };
    let mut out = vec![];
    let store = Arc::new(zarrs::storage::store::MemoryStore::new());
    let _trace = nuts_rs::ZarrConfig::new(store.clone()).new_trace(s, &math).map_err(|e| format!("{e:#}"))?;
    out.push(("sync", attr(store)?));
    // a store that already holds the trace of an earlier run with other settings (re-used path)
    let store = Arc::new(zarrs::storage::store::MemoryStore::new());
    let _old = nuts_rs::ZarrConfig::new(store.clone()).new_trace(&S::default(), &math).map_err(|e| format!("{e:#}"))?;
    let _trace = nuts_rs::ZarrConfig::new(store.clone()).new_trace(s, &math).map_err(|e| format!("{e:#}"))?;
    out.push(("sync-reused-store", attr(store)?));
    let rt = tokio::runtime::Builder::new_current_thread().enable_all().build().map_err(|e| e.to_string())?;
    let os = Arc::new(object_store::memory::InMemory::new());
    let astore = Arc::new(zarrs_object_store::AsyncObjectStore::new(os.clone()));
    let _old = nuts_rs::ZarrAsyncConfig::new(rt.handle().clone(), astore.clone()).new_trace(&S::default(), &math).map_err(|e| format!("{e:#}"))?;
    let _trace = nuts_rs::ZarrAsyncConfig::new(rt.handle().clone(), astore).new_trace(s, &math).map_err(|e| format!("{e:#}"))?;
    let mem = Arc::new(zarrs::storage::store::MemoryStore::new());
    rt.block_on(crate::c14::futures_lite_shim::copy_object_store(os, mem.clone()))?;
    out.push(("async", attr(mem)?));
    Ok(out)
}

fn check_value<S: Settings + std::fmt::Debug + Default>(
    preset: Preset,
    modified: &Value,
    what: &str,
    must: bool,
    run_chains: bool,
    p: &mut Partial,
) {
    p.evaluations += 1;
    let key = format!("{preset:?}/{what}");
    let replay = json!({"preset": format!("{preset:?}"), "settings_json": modified});
    let s1: S = match serde_json::from_value(modified.clone()) {
        Ok(s) => s,
        Err(e) => {
            if must {
                p.violation(format!("C19/valid-value-does-not-deserialize/{key}"), format!("{e}"), replay);
            } else {
                p.count("substitutions_not_valid_for_field_type", 1);
            }
            return;
        }
    };
    check_settings_value::<S>(preset, s1, Some(modified), &key, replay, run_chains, what, p);
}

/// A substituted leaf that the serialiser leaves out again cannot be compared in the JSON; the
/// value built from it must then at least differ from the value built from the base JSON (the
/// substitution reached the field), otherwise the alphabet does not reach this field at all.
fn check_substitution_took_effect<S: Settings + std::fmt::Debug + Default>(
    preset: Preset,
    base: &Value,
    modified: &Value,
    path: &[String],
    what: &str,
    p: &mut Partial,
) {
    if get_path(base, path) == get_path(modified, path) {
        return;
    }
    let (Ok(s0), Ok(s1)) = (serde_json::from_value::<S>(base.clone()), serde_json::from_value::<S>(modified.clone())) else {
        return;
    };
    let Ok(v1) = serde_json::to_value(&s1) else { return };
    if has_path(&v1, path) {
        return; // judged by the JSON comparison
    }
    p.count("substituted_leaf_absent_from_serialised_json", 1);
    if format!("{s0:?}") == format!("{s1:?}") {
        p.violation(
            format!("C19/field-ignored-by-deserialiser/{preset:?}/{what}"),
            format!("the settings built from the JSON with {} substituted are identical to those built without it, and the field does not come back in the serialised JSON", path.join(".")),
            json!({"preset": format!("{preset:?}"), "settings_json": modified}),
        );
    }
}

/// the round-trip oracles, starting from a settings VALUE (built from JSON or directly in Rust)
#[allow(clippy::too_many_arguments)]
fn check_settings_value<S: Settings + std::fmt::Debug + Default>(
    preset: Preset,
    s1: S,
    modified: Option<&Value>,
    key: &str,
    replay: Value,
    run_chains: bool,
    what: &str,
    p: &mut Partial,
) {
    let v1 = match serde_json::to_value(&s1) {
        Ok(v) => v,
        Err(e) => {
            p.violation(format!("C19/does-not-serialize/{key}"), format!("{e}"), replay);
            return;
        }
    };
    // every field the serialiser emits equals what went in (a field it leaves out - an optional
    // that is None, a block that only repeats defaults - is judged by the value-level oracles)
    let same_as_input = modified.map(|m| agree_where_both(&strip_nulls(&v1), &strip_nulls(m))).unwrap_or(true);
    let modified = modified.unwrap_or(&v1);
    if !same_as_input {
        p.violation(
            format!("C19/field-changed-by-round-trip/{key}"),
            format!("serialised {v1} from {modified}"),
            replay.clone(),
        );
    }
    // text round trip as well (the form that ends up in trace metadata)
    let txt = serde_json::to_string(&s1).unwrap();
    let s2: Result<S, _> = serde_json::from_str(&txt);
    let s2 = match s2 {
        Ok(s) => s,
        Err(e) => {
            p.violation(format!("C19/serialised-text-does-not-deserialize/{key}"), format!("{e}"), replay);
            return;
        }
    };
    let v2 = serde_json::to_value(&s2).unwrap();
    if v2 != v1 {
        p.violation(format!("C19/not-a-fixed-point/{key}"), format!("{v2} vs {v1}"), replay.clone());
    }
    let mut jk = BTreeSet::new();
    keys_rec(&v1, &mut jk);
    let dk = debug_keys(&s1);
    let missing: Vec<&String> = dk.iter().filter(|k| !jk.contains(*k)).collect();
    if !missing.is_empty() {
        // not a violation by itself (the property is about the round trip); the field inventory
        // keeps such fields in the alphabet and the value-level oracles below judge them
        p.count("values_with_fields_absent_from_json", 1);
    }
    if format!("{s1:?}") != format!("{s2:?}") {
        p.violation(format!("C19/fields-differ-after-round-trip/{key}"), String::new(), replay.clone());
    }
    // the settings stored in a trace's metadata are those the run used
    match zarr_metadata(&s1) {
        Ok(list) => {
            for (writer, stored) in list {
                p.count("zarr_metadata_compared", 1);
                let same = match serde_json::from_value::<S>(stored.clone()) {
                    Ok(sm) => format!("{sm:?}") == format!("{s1:?}"),
                    Err(_) => false,
                };
                if !same {
                    p.violation(format!("C19/trace-metadata-settings-differ/{writer}/{key}"), format!("stored {stored} but the run used {v1}"), replay.clone());
                }
            }
        }
        Err(e) => p.violation(format!("C19/trace-metadata-unreadable/{key}"), e, replay.clone()),
    }
    if run_chains {
        let n = if preset.is_nuts() { 30 } else { 10 };
        if std::env::var("VERIF_VERBOSE").is_ok() {
            eprintln!("chains {key}");
        }
        let f1 = chain_fingerprint(&s1, n);
        let f2 = chain_fingerprint(&s2, n);
        p.count("chain_pairs_compared", 1);
        if f1 != f2 {
            p.violation(
                format!("C19/chain-differs-after-round-trip/{key}"),
                "draws or statistics of the chain built from the deserialised settings differ".to_string(),
                replay,
            );
        }
    }
    p.class(format!("{preset:?}:{}", what.split('=').next().unwrap_or("")));
}

struct Job {
    preset: Preset,
    base: std::sync::Arc<Value>,
    path: Vec<String>,
    modified: Value,
    what: String,
    must: bool,
    run_chains: bool,
}

fn jobs_for<S: Settings + std::fmt::Debug + Default>(preset: Preset, default: S, tier: Tier, out: &mut Vec<Job>, p: &mut Partial) {
    let cur = serde_json::to_value(&default).unwrap();
    let templates: Value = serde_json::from_str(TEMPLATES).expect("data/c19_templates.json");
    let merged = merge(&cur, &templates[format!("{preset:?}")]);
    // the inventory is only used while it still describes the defaults of the code under test
    let base = match serde_json::from_value::<S>(merged.clone()) {
        Ok(s) if format!("{s:?}") == format!("{default:?}") => merged,
        _ => {
            p.count("field_inventory_stale", 1);
            cur.clone()
        }
    };
    if base != cur {
        p.count("presets_with_inventory_fields_absent_from_default_json", 1);
    }
    let base_arc = std::sync::Arc::new(base.clone());
    out.push(Job { preset, base: base_arc.clone(), path: vec![], modified: cur.clone(), what: "default".into(), must: true, run_chains: true });
    let mut paths = vec![];
    leaves(&base, &mut vec![], &mut paths);
    let mut singles: Vec<(Vec<String>, Value, bool)> = vec![];
    for path in &paths {
        let old = get_path(&base, path).clone();
        for (cand, must) in alphabet(&old) {
            singles.push((path.clone(), cand, must));
        }
    }
    for (path, cand, must) in &singles {
        let mut m = base.clone();
        set_path(&mut m, path, cand.clone());
        let what = format!("{}={}", path.join("."), cand);
        out.push(Job { preset, base: base_arc.clone(), path: path.clone(), modified: m, what, must: *must, run_chains: true });
    }
    if tier == Tier::Thorough {
        for i in 0..singles.len() {
            for j in (i + 1)..singles.len() {
                if singles[i].0 == singles[j].0 {
                    continue;
                }
                let mut m = base.clone();
                set_path(&mut m, &singles[i].0, singles[i].1.clone());
                set_path(&mut m, &singles[j].0, singles[j].1.clone());
                let what = format!(
                    "{}={}&{}={}",
                    singles[i].0.join("."),
                    singles[i].1,
                    singles[j].0.join("."),
                    singles[j].1
                );
                out.push(Job { preset, base: base_arc.clone(), path: vec![], modified: m, what, must: singles[i].2 && singles[j].2, run_chains: false });
            }
        }
    }
    p.sample(json!({"preset": format!("{preset:?}"), "leaves": paths.len(), "single_substitutions": singles.len(), "default": base}));
}

pub fn run(tier: Tier, _replay: Option<String>) -> i32 {
    let mut report = Report::new(
        "C19",
        tier,
        "exploration",
        "six presets x {default; every leaf of the settings JSON substituted by every value of its type alphabet (bools, ints {0,1,2,7,1000,2^32+16,2^53+1,0x9E3779B97F4A7C15}, floats {0,1e-3,0.5,0.999,1,2,-1,1.5,1.2e15,5e-324,-2.5}, null<->number, every enum variant incl. Fixed(x)); thorough: all pairs}; oracles: JSON fixed point and field identity, Debug field list subset of JSON keys, bit-identical chains (30 draws NUTS / 10 MCLMC, 200k-evaluation watchdog) from round-tripped settings. distinct = (preset, field) classes",
    );
    report.assume("non-finite floats are outside the quantifier (JSON has no representation); substitutions whose JSON type does not fit the field are skipped and counted");
    if let Ok(path) = std::env::var("VERIF_C19_DUMP_TEMPLATE") {
        // maintenance: record the field inventory from the tree the harness is written against
        let t = json!({
            "DiagNuts": nuts_rs::DiagNutsSettings::default(), "LowRankNuts": nuts_rs::LowRankNutsSettings::default(),
            "FlowNuts": nuts_rs::FlowNutsSettings::default(), "DiagMclmc": nuts_rs::DiagMclmcSettings::default(),
            "LowRankMclmc": nuts_rs::LowRankMclmcSettings::default(), "FlowMclmc": nuts_rs::FlowMclmcSettings::default(),
        });
        std::fs::write(&path, serde_json::to_string_pretty(&t).unwrap()).expect("write template");
        eprintln!("wrote {path}");
        return 0;
    }
    let mut jobs = vec![];
    let mut p0 = Partial::new();
    jobs_for(Preset::DiagNuts, nuts_rs::DiagNutsSettings::default(), tier, &mut jobs, &mut p0);
    jobs_for(Preset::LowRankNuts, nuts_rs::LowRankNutsSettings::default(), tier, &mut jobs, &mut p0);
    jobs_for(Preset::FlowNuts, nuts_rs::FlowNutsSettings::default(), tier, &mut jobs, &mut p0);
    jobs_for(Preset::DiagMclmc, nuts_rs::DiagMclmcSettings::default(), tier, &mut jobs, &mut p0);
    jobs_for(Preset::LowRankMclmc, nuts_rs::LowRankMclmcSettings::default(), tier, &mut jobs, &mut p0);
    jobs_for(Preset::FlowMclmc, nuts_rs::FlowMclmcSettings::default(), tier, &mut jobs, &mut p0);
    report.merge(p0);
    // settings values built in Rust (not through JSON): every variant of every enum-typed field,
    // None / Some for the optional ones - a value the (de)serialiser cannot express would never be
    // reached by substituting JSON leaves
    {
        use nuts_rs::{KineticEnergyKind as K, MclmcTrajectoryKind as T, StepSizeAdaptMethod as M};
        let mut p = Partial::new();
        let methods = [M::DualAverage, M::Adam, M::Fixed(0.25)];
        macro_rules! nuts_variants {
            ($preset:expr, $ty:ty) => {
                for m in methods {
                    for k in [K::Euclidean, K::ExactNormal] {
                        for jit in [None, Some(0.05)] {
                            for tt in [None, Some(1.5)] {
                                let mut s = <$ty>::default();
                                s.adapt_options.step_size_settings.adapt_options.method = m;
                                s.adapt_options.step_size_settings.jitter = jit;
                                s.trajectory_kind = k;
                                s.target_integration_time = tt;
                                let what = format!("rust-value/method={m:?}/kind={k:?}/jitter={jit:?}/time={tt:?}");
                                p.evaluations += 1;
                                let key = format!("{:?}/{what}", $preset);
                                check_settings_value::<$ty>($preset, s, None, &key, json!({"preset": format!("{:?}", $preset), "rust_value": what}), true, &what, &mut p);
                            }
                        }
                    }
                }
            };
        }
        macro_rules! mclmc_variants {
            ($preset:expr, $ty:ty) => {
                for m in methods {
                    for k in [T::Euclidean, T::Microcanonical, T::EuclideanEarlyThenMicrocanonical] {
                        for jit in [None, Some(0.05)] {
                            for dynamic in [false, true] {
                                let mut s = <$ty>::default();
                                s.adapt_options.step_size_settings.adapt_options.method = m;
                                s.adapt_options.step_size_settings.jitter = jit;
                                s.trajectory_kind = k;
                                s.dynamic_step_size = dynamic;
                                let what = format!("rust-value/method={m:?}/kind={k:?}/jitter={jit:?}/dynamic={dynamic}");
                                p.evaluations += 1;
                                let key = format!("{:?}/{what}", $preset);
                                // (chains only where the step size cannot collapse: see C06)
                                let chains = !matches!(m, M::DualAverage | M::Adam) || $preset != Preset::FlowMclmc;
                                check_settings_value::<$ty>($preset, s, None, &key, json!({"preset": format!("{:?}", $preset), "rust_value": what}), chains, &what, &mut p);
                            }
                        }
                    }
                }
            };
        }
        nuts_variants!(Preset::DiagNuts, nuts_rs::DiagNutsSettings);
        nuts_variants!(Preset::LowRankNuts, nuts_rs::LowRankNutsSettings);
        nuts_variants!(Preset::FlowNuts, nuts_rs::FlowNutsSettings);
        mclmc_variants!(Preset::DiagMclmc, nuts_rs::DiagMclmcSettings);
        mclmc_variants!(Preset::LowRankMclmc, nuts_rs::LowRankMclmcSettings);
        mclmc_variants!(Preset::FlowMclmc, nuts_rs::FlowMclmcSettings);
        report.merge(p);
    }
    report.bounds = json!({"jobs": jobs.len()});
    mc_core::par_for_each(&jobs, |_, j| {
        let mut p = Partial::new();
        macro_rules! go {
            ($ty:ty) => {{
                check_value::<$ty>(j.preset, &j.modified, &j.what, j.must, j.run_chains, &mut p);
                if !j.path.is_empty() {
                    check_substitution_took_effect::<$ty>(j.preset, &j.base, &j.modified, &j.path, &j.what, &mut p);
                }
            }};
        }
        match j.preset {
            Preset::DiagNuts => go!(nuts_rs::DiagNutsSettings),
            Preset::LowRankNuts => go!(nuts_rs::LowRankNutsSettings),
            Preset::FlowNuts => go!(nuts_rs::FlowNutsSettings),
            Preset::DiagMclmc => go!(nuts_rs::DiagMclmcSettings),
            Preset::LowRankMclmc => go!(nuts_rs::LowRankMclmcSettings),
            Preset::FlowMclmc => go!(nuts_rs::FlowMclmcSettings),
        }
        report.merge(p);
    });
    report.finish()
}
