//! C14 — every storage backend returns exactly what the chains recorded.
//!
//! Operation sequences on each backend, driven through the storage traits (hook H1 re-exports
//! them): record(warmup)^a . record(sample)^b with optional flush / inspect after every record, then
//! finalize; 1 and 2 chains; store_warmup on/off where the backend has the switch; aborted runs
//! (fewer rows than the settings announce). The rows come from real chains of the presets over a
//! model whose expanded vector has one variable per value type x shape, with special values; the
//! divergence pattern is every subset of draws (fault density). Everything read back (Zarr stores
//! re-opened with a fresh reader, CSV files re-parsed) is compared with the reference trace R-trace.

use std::collections::{BTreeMap, HashMap};
use std::sync::Arc;

use anyhow::Result;
use mc_core::{Partial, Report, Tier};
use nuts_rs::verif::{ChainStorage, StatsDims, StorageConfig, TraceStorage};
use nuts_rs::{
    ArrowConfig, Chain, CpuLogpFunc, CpuMath, CpuMathError, CsvConfig, HasDims, HashMapConfig,
    HashMapValue, ItemType, LogpError, NdarrayConfig, NdarrayValue, Progress, Settings, Storable,
    Value, ZarrAsyncConfig, ZarrConfig,
};
use rand::rngs::ChaCha8Rng;
use rand::SeedableRng;
use serde_json::json;

use crate::common::models::{FaultKind, HErr};
use crate::common::runner::{panic_msg, Preset, Tweaks};
use crate::with_settings;

// ---------------------------------------------------------------------------------------------
// the model: 2-d Gaussian whose expanded vector exercises every type x shape
// ---------------------------------------------------------------------------------------------

#[derive(Clone)]
pub struct RichDens {
    pub n_eval: std::rc::Rc<std::cell::Cell<u64>>,
    pub faults: Vec<(u64, FaultKind)>,
    pub n_expand: std::rc::Rc<std::cell::Cell<u64>>,
    /// only scalar and vector variables of numeric / bool type (what the ndarray backend supports)
    pub reduced: bool,
}

impl RichDens {
    pub fn new(faults: Vec<(u64, FaultKind)>) -> Self {
        RichDens { n_eval: Default::default(), faults, n_expand: Default::default(), reduced: false }
    }
}

impl HasDims for RichDens {
    fn dim_sizes(&self) -> HashMap<String, u64> {
        HashMap::from([
            ("unconstrained_parameter".to_string(), 2),
            ("v3".to_string(), 3),
            ("r2".to_string(), 2),
            ("c3".to_string(), 3),
            ("zero".to_string(), 0),
            ("one".to_string(), 1),
        ])
    }
}

pub struct RichVec {
    vals: Vec<(&'static str, Value)>,
}

const RICH_VARS: [(&str, ItemType, &[&str]); 12] = [
    ("x", ItemType::F64, &["v3"]),
    ("s", ItemType::F64, &[]),
    ("m", ItemType::F64, &["r2", "c3"]),
    ("e", ItemType::F64, &["zero"]),
    ("f32v", ItemType::F32, &["v3"]),
    ("i", ItemType::I64, &[]),
    ("u", ItemType::U64, &["v3"]),
    ("b", ItemType::Bool, &["v3"]),
    ("flag", ItemType::Bool, &[]),
    ("name", ItemType::String, &[]),
    // dimensions whose sizes multiply to one: a vector of length 1 and a 1 x 1 matrix
    ("one1", ItemType::F64, &["one"]),
    ("m11", ItemType::F64, &["one", "one"]),
];

impl Storable<RichDens> for RichVec {
    fn names(p: &RichDens) -> Vec<&str> {
        RICH_VARS
            .iter()
            .filter(|v| !p.reduced || (v.2.len() <= 1 && v.1 != ItemType::String && v.0 != "e"))
            .map(|v| v.0)
            .collect()
    }
    fn item_type(_p: &RichDens, item: &str) -> ItemType {
        RICH_VARS.iter().find(|v| v.0 == item).unwrap().1
    }
    fn dims<'a>(_p: &'a RichDens, item: &str) -> Vec<&'a str> {
        RICH_VARS.iter().find(|v| v.0 == item).unwrap().2.to_vec()
    }
    fn get_all<'a>(&'a mut self, p: &'a RichDens) -> Vec<(&'a str, Option<Value>)> {
        let names = Self::names(p);
        self.vals.iter().filter(|(n, _)| names.contains(n)).map(|(n, v)| (*n, Some(v.clone()))).collect()
    }
}

impl CpuLogpFunc for RichDens {
    type LogpError = HErr;
    type FlowParameters = crate::common::models::AffineFlow;
    type ExpandedVector = RichVec;
    fn dim(&self) -> usize {
        2
    }
    fn logp(&mut self, position: &[f64], gradient: &mut [f64]) -> Result<f64, HErr> {
        let k = self.n_eval.get();
        self.n_eval.set(k + 1);
        if let Some((_, f)) = self.faults.iter().find(|(i, _)| *i == k) {
            match f {
                FaultKind::Recoverable => return Err(HErr::Recoverable(k)),
                FaultKind::Unrecoverable => return Err(HErr::Unrecoverable(k)),
                _ => {}
            }
        }
        let sd = [0.8, 1.7];
        let mut lp = 0.0;
        for i in 0..2 {
            let z = (position[i] - 0.2) / sd[i];
            lp -= 0.5 * z * z;
            gradient[i] = -z / sd[i];
        }
        if let Some((_, FaultKind::HugeDrop)) = self.faults.iter().find(|(i, _)| *i == k) {
            lp -= 1e6;
        }
        Ok(lp)
    }
    fn expand_vector<R: rand::Rng + ?Sized>(&mut self, _rng: &mut R, a: &[f64]) -> Result<RichVec, CpuMathError> {
        let k = self.n_expand.get();
        self.n_expand.set(k + 1);
        // special values rotate through the draws
        let special = [f64::NAN, f64::INFINITY, f64::NEG_INFINITY, -0.0, 5e-324, 1e300];
        let sp = special[(k % 6) as usize];
        let names = ["", "alpha", "β-beta, with comma", "  spaced ", "x"];
        Ok(RichVec {
            vals: vec![
                ("x", Value::F64(vec![a[0], a[1], sp])),
                ("s", Value::ScalarF64(a[0] * a[1] + k as f64)),
                ("m", Value::F64(vec![a[0], 1.0 + k as f64, sp, -a[1], 2.5, 1e-7])),
                ("e", Value::F64(vec![])),
                ("f32v", Value::F32(vec![a[0] as f32, sp as f32, 1.5 + k as f32])),
                ("i", Value::ScalarI64(if k % 3 == 0 { i64::MIN } else if k % 3 == 1 { i64::MAX } else { -(k as i64) })),
                ("u", Value::U64(vec![k, u64::MAX, 0])),
                ("b", Value::Bool(vec![k % 2 == 0, true, a[0] > 0.0])),
                ("flag", Value::ScalarBool(k % 2 == 1)),
                ("name", Value::ScalarString(names[(k % 5) as usize].to_string())),
                ("one1", Value::F64(vec![a[0] + a[1] + k as f64])),
                ("m11", Value::F64(vec![a[0] - 2.0 * k as f64])),
            ],
        })
    }
    fn inv_transform_normalize(&mut self, p: &Self::FlowParameters, x: &[f64], g: &[f64], y: &mut [f64], gy: &mut [f64]) -> Result<f64, HErr> {
        for i in 0..2 {
            y[i] = (x[i] - p.shift[i]) / p.scale[i];
            gy[i] = g[i] * p.scale[i];
        }
        Ok(-p.scale.iter().map(|s| s.ln()).sum::<f64>())
    }
    fn init_from_untransformed_position(&mut self, p: &Self::FlowParameters, x: &[f64], g: &mut [f64], y: &mut [f64], gy: &mut [f64]) -> Result<(f64, f64), HErr> {
        let lp = self.logp(x, g)?;
        let g2 = g.to_vec();
        let ld = self.inv_transform_normalize(p, x, &g2, y, gy)?;
        Ok((lp, ld))
    }
    fn init_from_transformed_position(&mut self, p: &Self::FlowParameters, x: &mut [f64], g: &mut [f64], y: &[f64], gy: &mut [f64]) -> Result<(f64, f64), HErr> {
        for i in 0..2 {
            x[i] = y[i] * p.scale[i] + p.shift[i];
        }
        let lp = self.logp(x, g)?;
        for i in 0..2 {
            gy[i] = g[i] * p.scale[i];
        }
        Ok((lp, -p.scale.iter().map(|s| s.ln()).sum::<f64>()))
    }
    fn update_transformation<'a, R: rand::Rng + ?Sized>(&'a mut self, _rng: &mut R, _x: impl ExactSizeIterator<Item = &'a [f64]>, _g: impl ExactSizeIterator<Item = &'a [f64]>, _l: impl ExactSizeIterator<Item = &'a f64>, p: &'a mut Self::FlowParameters) -> Result<(), HErr> {
        p.id += 1;
        Ok(())
    }
    fn init_transformation<R: rand::Rng + ?Sized>(&mut self, _rng: &mut R, _x: &[f64], _g: &[f64], _chain: u64) -> Result<Self::FlowParameters, HErr> {
        Ok(crate::common::models::AffineFlow { shift: vec![0.0; 2], scale: vec![1.0; 2], id: 0 })
    }
    fn new_transformation<R: rand::Rng + ?Sized>(&mut self, _rng: &mut R, _dim: usize, _chain: u64) -> Result<Self::FlowParameters, HErr> {
        Ok(crate::common::models::AffineFlow { shift: vec![0.0; 2], scale: vec![1.0; 2], id: 0 })
    }
    fn transformation_id(&self, p: &Self::FlowParameters) -> Result<i64, HErr> {
        Ok(p.id)
    }
}

impl LogpError for HErrUnused {
    fn is_recoverable(&self) -> bool {
        false
    }
}
#[derive(Debug)]
pub struct HErrUnused;
impl std::fmt::Display for HErrUnused {
    fn fmt(&self, f: &mut std::fmt::Formatter<'_>) -> std::fmt::Result {
        write!(f, "unused")
    }
}
impl std::error::Error for HErrUnused {}

// ---------------------------------------------------------------------------------------------
// canonical cells and the reference trace
// ---------------------------------------------------------------------------------------------

#[derive(Clone, Debug, PartialEq, Eq, PartialOrd, Ord)]
pub enum Cell {
    F64(u64),
    F32(u32),
    I64(i64),
    U64(u64),
    Bool(bool),
    Str(String),
}

fn f64c(x: f64) -> Cell {
    Cell::F64(if x.is_nan() { f64::NAN.to_bits() } else { x.to_bits() })
}
fn f32c(x: f32) -> Cell {
    Cell::F32(if x.is_nan() { f32::NAN.to_bits() } else { x.to_bits() })
}

pub fn cells_of(v: &Value) -> Vec<Cell> {
    match v {
        Value::U64(x) => x.iter().map(|v| Cell::U64(*v)).collect(),
        Value::I64(x) => x.iter().map(|v| Cell::I64(*v)).collect(),
        Value::F64(x) => x.iter().map(|v| f64c(*v)).collect(),
        Value::F32(x) => x.iter().map(|v| f32c(*v)).collect(),
        Value::Bool(x) => x.iter().map(|v| Cell::Bool(*v)).collect(),
        Value::ScalarString(s) => vec![Cell::Str(s.clone())],
        Value::Strings(x) => x.iter().map(|v| Cell::Str(v.clone())).collect(),
        Value::ScalarU64(v) => vec![Cell::U64(*v)],
        Value::ScalarI64(v) => vec![Cell::I64(*v)],
        Value::ScalarF64(v) => vec![f64c(*v)],
        Value::ScalarF32(v) => vec![f32c(*v)],
        Value::ScalarBool(v) => vec![Cell::Bool(*v)],
        Value::DateTime64(_, x) | Value::TimeDelta64(_, x) => x.iter().map(|v| Cell::I64(*v)).collect(),
    }
}

#[derive(Clone)]
pub struct RRow {
    pub tuning: bool,
    pub draw: u64,
    pub chain: u64,
    pub diverging: bool,
    pub step_size: f64,
    pub num_steps: u64,
    pub stats: Vec<(String, Option<Value>)>,
    pub draws: Vec<(String, Option<Value>)>,
}

impl RRow {
    fn progress(&self) -> Progress {
        // Progress is #[non_exhaustive]: obtained by cloning a real one is not possible here, so
        // the rows keep the real Progress values and rebuild it through the public fields
        make_progress(self.draw, self.chain, self.diverging, self.tuning, self.step_size, self.num_steps)
    }
}

thread_local! {
    static PROGRESS_TEMPLATE: std::cell::RefCell<Option<Progress>> = const { std::cell::RefCell::new(None) };
}

fn make_progress(draw: u64, chain: u64, diverging: bool, tuning: bool, step_size: f64, num_steps: u64) -> Progress {
    let mut p = PROGRESS_TEMPLATE.with(|t| t.borrow().clone()).expect("progress template");
    p.draw = draw;
    p.chain = chain;
    p.diverging = diverging;
    p.tuning = tuning;
    p.step_size = step_size;
    p.num_steps = num_steps;
    p
}

/// rows of one real chain (a warmup + b sampling draws), divergences injected at `div_draws`
pub fn make_rows<S: Settings>(settings: &S, chain: u64, n: usize, faults: Vec<(u64, FaultKind)>, reduced: bool) -> Result<(Vec<RRow>, Vec<u64>), String> {
    let mut dens = RichDens::new(faults);
    dens.reduced = reduced;
    let evals = dens.n_eval.clone();
    let math = CpuMath::new(dens);
    let mut rng = ChaCha8Rng::seed_from_u64(17 + chain);
    let mut ch = std::panic::catch_unwind(std::panic::AssertUnwindSafe(|| settings.new_chain(chain, math, &mut rng))).map_err(|p| format!("new_chain panicked: {}", panic_msg(&p)))?;
    ch.set_position(&[0.35, -0.6]).map_err(|e| format!("set_position: {e:#}"))?;
    let mut rows = vec![];
    let mut bounds = vec![evals.get()];
    for _ in 0..n {
        let (_pos, mut data, mut stats, info) = ch.expanded_draw().map_err(|e| format!("draw: {e:#}"))?;
        PROGRESS_TEMPLATE.with(|t| *t.borrow_mut() = Some(info.clone()));
        let m = ch.math();
        let dims = StatsDims::from(&*m);
        let s: Vec<(String, Option<Value>)> = stats.get_all(&dims).into_iter().map(|(k, v)| (k.to_string(), v)).collect();
        let d: Vec<(String, Option<Value>)> = data.get_all(&*m).into_iter().map(|(k, v)| (k.to_string(), v)).collect();
        rows.push(RRow { tuning: info.tuning, draw: info.draw, chain: info.chain, diverging: info.diverging, step_size: info.step_size, num_steps: info.num_steps, stats: s, draws: d });
        bounds.push(evals.get());
    }
    Ok((rows, bounds))
}

// ---------------------------------------------------------------------------------------------
// what a backend returned
// ---------------------------------------------------------------------------------------------

/// per (chain, is_stat, name)
#[derive(Clone, Debug)]
pub enum Col {
    /// one entry per stored row; None = null / absent
    Rows(Vec<Option<Vec<Cell>>>),
    /// one entry per stored row, absent rows cannot be told apart (dense arrays)
    Dense(Vec<Vec<Cell>>),
    /// concatenation of the values that were present
    Flat(Vec<Cell>),
}

pub type ReadBack = BTreeMap<(usize, bool, String), Col>;

#[derive(Clone, Copy, Debug, PartialEq, Eq, PartialOrd, Ord)]
pub enum Backend {
    HashMap,
    Ndarray,
    Arrow,
    ZarrSync,
    ZarrSyncFs,
    ZarrAsync,
    Csv,
}

#[derive(Clone, Copy, Debug, PartialEq, Eq)]
pub enum Ops {
    Plain,
    FlushEach,
    InspectEach,
}

pub fn feed<C: ChainStorage, S: Settings>(cs: &mut C, settings: &S, row: &RRow) -> Result<()> {
    let stats: Vec<(&str, Option<Value>)> = row.stats.iter().map(|(k, v)| (k.as_str(), v.clone())).collect();
    let draws: Vec<(&str, Option<Value>)> = row.draws.iter().map(|(k, v)| (k.as_str(), v.clone())).collect();
    cs.record_sample(settings, stats, draws, &row.progress())
}

fn hashmap_cells(v: &HashMapValue) -> Vec<Cell> {
    match v {
        HashMapValue::F64(x) => x.iter().map(|v| f64c(*v)).collect(),
        HashMapValue::F32(x) => x.iter().map(|v| f32c(*v)).collect(),
        HashMapValue::Bool(x) => x.iter().map(|v| Cell::Bool(*v)).collect(),
        HashMapValue::I64(x) => x.iter().map(|v| Cell::I64(*v)).collect(),
        HashMapValue::U64(x) => x.iter().map(|v| Cell::U64(*v)).collect(),
        HashMapValue::String(x) => x.iter().map(|v| Cell::Str(v.clone())).collect(),
    }
}

fn arrow_col(arr: &arrow::array::ArrayRef) -> Result<Vec<Option<Vec<Cell>>>, String> {
    use arrow::array::*;
    fn prim(a: &dyn Array, i: usize) -> Result<Cell, String> {
        if let Some(x) = a.as_any().downcast_ref::<Float64Array>() {
            return Ok(f64c(x.value(i)));
        }
        if let Some(x) = a.as_any().downcast_ref::<Float32Array>() {
            return Ok(f32c(x.value(i)));
        }
        if let Some(x) = a.as_any().downcast_ref::<Int64Array>() {
            return Ok(Cell::I64(x.value(i)));
        }
        if let Some(x) = a.as_any().downcast_ref::<UInt64Array>() {
            return Ok(Cell::U64(x.value(i)));
        }
        if let Some(x) = a.as_any().downcast_ref::<BooleanArray>() {
            return Ok(Cell::Bool(x.value(i)));
        }
        if let Some(x) = a.as_any().downcast_ref::<StringArray>() {
            return Ok(Cell::Str(x.value(i).to_string()));
        }
        Err(format!("unsupported arrow type {:?}", a.data_type()))
    }
    let mut out = vec![];
    if let Some(l) = arr.as_any().downcast_ref::<LargeListArray>() {
        for i in 0..l.len() {
            if l.is_null(i) {
                out.push(None);
            } else {
                let v = l.value(i);
                let mut cells = vec![];
                for j in 0..v.len() {
                    cells.push(prim(v.as_ref(), j)?);
                }
                out.push(Some(cells));
            }
        }
    } else {
        for i in 0..arr.len() {
            if arr.is_null(i) {
                out.push(None);
            } else {
                out.push(Some(vec![prim(arr.as_ref(), i)?]));
            }
        }
    }
    Ok(out)
}

fn ndarray_rows(v: &NdarrayValue, chain: usize, n_rows: usize) -> Vec<Vec<Cell>> {
    use ndarray::Axis;
    macro_rules! go {
        ($a:expr, $f:expr) => {{
            let sub = $a.index_axis(Axis(0), chain);
            (0..n_rows.min(sub.shape()[0])).map(|r| sub.index_axis(Axis(0), r).iter().map($f).collect()).collect()
        }};
    }
    match v {
        NdarrayValue::F64(a) => go!(a, |x: &f64| f64c(*x)),
        NdarrayValue::F32(a) => go!(a, |x: &f32| f32c(*x)),
        NdarrayValue::Bool(a) => go!(a, |x: &bool| Cell::Bool(*x)),
        NdarrayValue::I64(a) => go!(a, |x: &i64| Cell::I64(*x)),
        NdarrayValue::U64(a) => go!(a, |x: &u64| Cell::U64(*x)),
        NdarrayValue::String(a) => go!(a, |x: &String| Cell::Str(x.clone())),
    }
}

/// read every array below the four groups of a zarr store written by the sync backend
pub fn read_zarr_sync(
    store: Arc<dyn zarrs::storage::ReadableListableStorageTraits>,
    names_stats: &[(String, ItemType, bool)],
    names_draws: &[(String, ItemType)],
    n_chains: usize,
) -> Result<ReadBack, String> {
    use zarrs::array::{Array, ArraySubset};
    let mut out = ReadBack::new();
    let mut read = |group: &str, name: &str, ty: ItemType| -> Result<Vec<Vec<Vec<Cell>>>, String> {
        let path = format!("/{group}/{name}");
        let arr = Array::open(store.clone(), &path).map_err(|e| format!("open {path}: {e}"))?;
        let shape = arr.shape().to_vec();
        let per_row: usize = shape[2..].iter().product::<u64>() as usize;
        let subset = ArraySubset::new_with_shape(shape.clone());
        macro_rules! get {
            ($t:ty, $f:expr) => {{
                let v: Vec<$t> = if shape.iter().any(|s| *s == 0) { vec![] } else { arr.retrieve_array_subset(&subset).map_err(|e| format!("read {path}: {e}"))? };
                v.iter().map($f).collect::<Vec<Cell>>()
            }};
        }
        let flat: Vec<Cell> = match ty {
            ItemType::F64 => get!(f64, |x| f64c(*x)),
            ItemType::F32 => get!(f32, |x| f32c(*x)),
            ItemType::I64 => get!(i64, |x| Cell::I64(*x)),
            ItemType::U64 => get!(u64, |x| Cell::U64(*x)),
            ItemType::Bool => get!(bool, |x| Cell::Bool(*x)),
            ItemType::String => get!(String, |x| Cell::Str(x.clone())),
            _ => return Err("unsupported type".into()),
        };
        let rows = shape[1] as usize;
        let mut res = vec![];
        for c in 0..shape[0] as usize {
            let mut r = vec![];
            for d in 0..rows {
                let start = (c * rows + d) * per_row;
                r.push(if per_row == 0 { vec![] } else { flat[start..start + per_row].to_vec() });
            }
            res.push(r);
        }
        Ok(res)
    };
    for (name, ty, is_event) in names_stats {
        if name == "draw" || name == "chain" {
            continue;
        }
        let w = read("warmup_sample_stats", name, *ty)?;
        let s = read("sample_stats", name, *ty)?;
        for c in 0..n_chains {
            let mut rows: Vec<Vec<Cell>> = w.get(c).cloned().unwrap_or_default();
            rows.extend(s.get(c).cloned().unwrap_or_default());
            // stored as (warmup rows, then sample rows); the comparison splits them again
            out.insert((c, true, format!("{name}#warmup")), Col::Dense(w.get(c).cloned().unwrap_or_default()));
            out.insert((c, true, format!("{name}#sample")), Col::Dense(s.get(c).cloned().unwrap_or_default()));
            let _ = (rows, is_event);
        }
    }
    for (name, ty) in names_draws {
        let w = read("warmup_posterior", name, *ty)?;
        let s = read("posterior", name, *ty)?;
        for c in 0..n_chains {
            out.insert((c, false, format!("{name}#warmup")), Col::Dense(w.get(c).cloned().unwrap_or_default()));
            out.insert((c, false, format!("{name}#sample")), Col::Dense(s.get(c).cloned().unwrap_or_default()));
        }
    }
    Ok(out)
}

#[derive(Clone, Debug)]
pub struct Scenario {
    pub preset: Preset,
    pub backend: Backend,
    pub a: usize,
    pub b: usize,
    /// rows actually recorded per chain (prefix of a+b): aborted run when smaller
    pub recorded: usize,
    pub chains: usize,
    pub store_warmup: bool,
    pub ops: Ops,
    pub div_mask: u32,
    /// divergence pattern of chain 1 when it differs from chain 0's
    pub div_mask1: Option<u32>,
    pub chunk: u64,
    /// variables of every type x shape (false: scalar / vector numeric and bool only)
    pub rich: bool,
}

impl Scenario {
    fn name(&self) -> String {
        format!("{:?}/{:?}/a{}b{}rec{}/chains{}/warmup{}/{:?}/div{:b}/chunk{}/rich{}", self.backend, self.preset, self.a, self.b, self.recorded, self.chains, self.store_warmup, self.ops, self.div_mask, self.chunk, self.rich) + &self.div_mask1.map(|m| format!("/chain1div{m:b}")).unwrap_or_default()
    }
}

struct Schema {
    stats: Vec<(String, ItemType, bool)>,
    draws: Vec<(String, ItemType)>,
}

fn run_scenario<S: Settings>(sc: &Scenario, settings: &S, p: &mut Partial) {
    let name = sc.name();
    let replay = json!({"scenario": format!("{sc:?}")});
    let n = sc.a + sc.b;
    // ---- rows: fault-free first (to locate the evaluations of each draw), then with divergences
    let mut rows_per_chain: Vec<Vec<RRow>> = vec![];
    for c in 0..sc.chains {
        let base = match make_rows(settings, c as u64, n, vec![], !sc.rich) {
            Ok(r) => r,
            Err(e) => {
                if e.contains("panicked") {
                    p.violation(format!("C14/chain-construction-panicked/{name}"), e, replay.clone());
                }
                return;
            }
        };
        let faults: Vec<(u64, FaultKind)> = (0..n)
            .filter(|k| (if c == 1 { sc.div_mask1.unwrap_or(sc.div_mask) } else { sc.div_mask }) >> k & 1 == 1)
            .map(|k| (base.1[k] + 1, if k % 2 == 0 { FaultKind::Recoverable } else { FaultKind::HugeDrop }))
            .collect();
        let rows = if faults.is_empty() { base.0 } else {
            match make_rows(settings, c as u64, n, faults, !sc.rich) {
                Ok(r) => r.0,
                Err(_) => return,
            }
        };
        rows_per_chain.push(rows);
    }
    let schema_math = CpuMath::new({
        let mut d = RichDens::new(vec![]);
        d.reduced = !sc.rich;
        d
    });
    let ev: HashMap<String, Option<String>> = settings.stat_event_dims(&schema_math).into_iter().collect();
    let schema = Schema {
        stats: settings.stat_types(&schema_math).into_iter().map(|(n, t)| { let e = ev.get(&n).cloned().flatten().is_some(); (n, t, e) }).collect(),
        draws: settings.data_types(&schema_math),
    };
    p.evaluations += 1;

    // ---- drive the backend ----
    let result = std::panic::catch_unwind(std::panic::AssertUnwindSafe(|| drive(sc, settings, &schema_math, &schema, &rows_per_chain, p, &name)));
    let rb = match result {
        Err(pn) => {
            p.violation(format!("C14/backend-panicked/{:?}/{}", sc.backend, short(&panic_msg(&pn))), format!("{name}: {}", panic_msg(&pn)), replay);
            return;
        }
        Ok(Err(e)) => {
            p.violation(format!("C14/backend-returned-error/{:?}/{}", sc.backend, short(&e)), format!("{name}: {e}"), replay);
            return;
        }
        Ok(Ok(rb)) => rb,
    };
    // ---- compare with R-trace ----
    compare(sc, &schema, &rows_per_chain, &rb, p, &name);
    p.class(format!("{:?}:{:?}:warmup{}:{:?}:div{}", sc.backend, sc.preset, sc.store_warmup, sc.ops, (sc.div_mask != 0) as u8));
}

fn short(s: &str) -> String {
    s.chars().filter(|c| c.is_ascii_alphanumeric() || *c == ' ').take(60).collect::<String>().replace(' ', "-")
}

fn drive<S: Settings>(sc: &Scenario, settings: &S, math: &CpuMath<RichDens>, schema: &Schema, rows: &[Vec<RRow>], p: &mut Partial, name: &str) -> Result<ReadBack, String> {
    let e2s = |e: anyhow::Error| format!("{e:#}");
    let mut rb = ReadBack::new();
    macro_rules! run_chains {
        ($trace:expr, $inspect_check:expr) => {{
            let trace = $trace;
            let mut finals = vec![];
            for c in 0..sc.chains {
                let mut cs = trace.initialize_trace_for_chain(c as u64).map_err(e2s)?;
                for (k, row) in rows[c][..sc.recorded].iter().enumerate() {
                    feed(&mut cs, settings, row).map_err(|e| format!("record_sample row {k}: {e:#}"))?;
                    match sc.ops {
                        Ops::Plain => {}
                        Ops::FlushEach => cs.flush().map_err(|e| format!("flush after row {k}: {e:#}"))?,
                        Ops::InspectEach => {
                            let ins = cs.inspect().map_err(|e| format!("inspect after row {k}: {e:#}"))?;
                            $inspect_check(c, k, ins, &mut *p);
                            // the trace-level snapshot (what Sampler::inspect returns) must leave
                            // the live trace usable: recording goes on afterwards
                            let again = cs.inspect().map_err(|e| format!("inspect after row {k}: {e:#}"))?;
                            let (err, _snapshot) = trace.inspect(vec![Ok(again)]).map_err(|e| format!("trace inspect after row {k}: {e:#}"))?;
                            if let Some(e) = err {
                                return Err(format!("trace inspect after row {k} reported: {e:#}"));
                            }
                        }
                    }
                }
                finals.push(cs.finalize());
            }
            trace.finalize(finals).map_err(e2s)?
        }};
    }
    match sc.backend {
        Backend::HashMap => {
            let trace = HashMapConfig::new().new_trace(settings, math).map_err(e2s)?;
            let (err, fin) = run_chains!(trace, |_c: usize, _k: usize, _ins, _p: &mut Partial| {});
            if let Some(e) = err {
                return Err(format!("finalize reported: {e:#}"));
            }
            for (c, r) in fin.iter().enumerate() {
                for (k, v) in &r.stats {
                    rb.insert((c, true, k.clone()), Col::Flat(hashmap_cells(v)));
                }
                for (k, v) in &r.draws {
                    rb.insert((c, false, k.clone()), Col::Flat(hashmap_cells(v)));
                }
            }
        }
        Backend::Ndarray => {
            let trace = NdarrayConfig::new().new_trace(settings, math).map_err(e2s)?;
            let (err, fin) = run_chains!(trace, |_c: usize, _k: usize, _ins, _p: &mut Partial| {});
            if let Some(e) = err {
                return Err(format!("finalize reported: {e:#}"));
            }
            for c in 0..sc.chains {
                for (k, v) in &fin.stats {
                    rb.insert((c, true, k.clone()), Col::Dense(ndarray_rows(v, c, sc.recorded)));
                }
                for (k, v) in &fin.draws {
                    rb.insert((c, false, k.clone()), Col::Dense(ndarray_rows(v, c, sc.recorded)));
                }
            }
        }
        Backend::Arrow => {
            let mut cfg = ArrowConfig::default();
            cfg.store_warmup = sc.store_warmup;
            let trace = cfg.new_trace(settings, math).map_err(e2s)?;
            let expected_prefix = |c: usize, k: usize| -> usize { rows[c][..=k].iter().filter(|r| sc.store_warmup || !r.tuning).count() };
            let (err, fin) = run_chains!(trace, |c: usize, k: usize, ins: Option<nuts_rs::ArrowTrace>, p: &mut Partial| {
                match ins {
                    Some(t) => {
                        if t.posterior.num_rows() != expected_prefix(c, k) || t.sample_stats.num_rows() != expected_prefix(c, k) {
                            p.violation(format!("C14/inspect-prefix-length/Arrow"), format!("{name}: after row {k} inspect shows {} rows", t.posterior.num_rows()), json!({"scenario": name}));
                        }
                    }
                    None => p.violation(format!("C14/inspect-returned-nothing/Arrow"), name.to_string(), json!({"scenario": name})),
                }
            });
            if let Some(e) = err {
                return Err(format!("finalize reported: {e:#}"));
            }
            for (c, t) in fin.iter().enumerate() {
                for (batch, is_stat) in [(&t.sample_stats, true), (&t.posterior, false)] {
                    for (i, f) in batch.schema().fields().iter().enumerate() {
                        rb.insert((c, is_stat, f.name().clone()), Col::Rows(arrow_col(batch.column(i))?));
                    }
                }
            }
        }
        Backend::ZarrSync | Backend::ZarrSyncFs => {
            let mut cleanup: Option<tempfile::TempDir> = None;
            let (store, reader): (zarrs::storage::ReadableWritableListableStorage, Arc<dyn zarrs::storage::ReadableListableStorageTraits>) = if sc.backend == Backend::ZarrSync {
                let m = Arc::new(zarrs::storage::store::MemoryStore::new());
                (m.clone(), m)
            } else {
                let tmp = tempfile::tempdir_in(mc_core::verif_root().join(".build")).map_err(|e| e.to_string())?;
                let s = Arc::new(zarrs::filesystem::FilesystemStore::new(tmp.path()).map_err(|e| e.to_string())?);
                cleanup = Some(tmp);
                (s.clone(), s)
            };
            let cfg = ZarrConfig::new(store.clone()).with_chunk_size(sc.chunk).store_warmup(sc.store_warmup);
            let trace = cfg.new_trace(settings, math).map_err(e2s)?;
            let (err, _fin) = run_chains!(trace, |_c: usize, _k: usize, _ins, _p: &mut Partial| {});
            if let Some(e) = err {
                return Err(format!("finalize reported: {e:#}"));
            }
            rb = read_zarr_sync(reader, &schema.stats, &schema.draws, sc.chains)?;
            drop(cleanup.take());
        }
        Backend::ZarrAsync => {
            let rt = tokio::runtime::Builder::new_multi_thread().worker_threads(1).enable_all().build().map_err(|e| e.to_string())?;
            let os = Arc::new(object_store::memory::InMemory::new());
            let store = Arc::new(zarrs_object_store::AsyncObjectStore::new(os.clone()));
            let cfg = ZarrAsyncConfig::new(rt.handle().clone(), store.clone()).with_chunk_size(sc.chunk).store_warmup(sc.store_warmup);
            let trace = cfg.new_trace(settings, math).map_err(e2s)?;
            let (err, _fin) = run_chains!(trace, |_c: usize, _k: usize, _ins, _p: &mut Partial| {});
            if let Some(e) = err {
                return Err(format!("finalize reported: {e:#}"));
            }
            // copy the object store into a sync memory store and read it with the sync reader
            let mem = Arc::new(zarrs::storage::store::MemoryStore::new());
            rt.block_on(async {
                use futures_lite_shim::*;
                copy_object_store(os.clone(), mem.clone()).await
            })?;
            let reader: Arc<dyn zarrs::storage::ReadableListableStorageTraits> = mem;
            rb = read_zarr_sync(reader, &schema.stats, &schema.draws, sc.chains)?;
        }
        Backend::Csv => {
            let dir = tempfile::tempdir_in(mc_core::verif_root().join(".build")).map_err(|e| e.to_string())?;
            let cfg = CsvConfig::new(dir.path()).with_precision(17).store_warmup(sc.store_warmup);
            let trace = cfg.new_trace(settings, math).map_err(e2s)?;
            let (err, _fin) = run_chains!(trace, |_c: usize, _k: usize, _ins, _p: &mut Partial| {});
            if let Some(e) = err {
                return Err(format!("finalize reported: {e:#}"));
            }
            for c in 0..sc.chains {
                let txt = std::fs::read_to_string(dir.path().join(format!("chain_{c}.csv"))).map_err(|e| e.to_string())?;
                let mut lines = txt.lines();
                let header: Vec<String> = lines.next().unwrap_or("").split(',').map(|s| s.to_string()).collect();
                let mut cols: Vec<Vec<Option<Vec<Cell>>>> = vec![vec![]; header.len()];
                for l in lines {
                    let f: Vec<&str> = l.split(',').collect();
                    if f.len() != header.len() {
                        return Err(format!("csv row has {} fields, header {}", f.len(), header.len()));
                    }
                    for (i, v) in f.iter().enumerate() {
                        cols[i].push(Some(vec![Cell::Str(v.to_string())]));
                    }
                }
                for (i, h) in header.iter().enumerate() {
                    rb.insert((c, false, format!("csv:{h}")), Col::Rows(cols[i].clone()));
                }
            }
        }
    }
    Ok(rb)
}

pub mod futures_lite_shim {
    use std::sync::Arc;
    /// copy every object of the in-memory object store into a zarrs MemoryStore
    pub async fn copy_object_store(os: Arc<object_store::memory::InMemory>, mem: Arc<zarrs::storage::store::MemoryStore>) -> Result<(), String> {
        use object_store::{ObjectStore, ObjectStoreExt};
        use zarrs::storage::WritableStorageTraits;
        // list without a stream combinator crate: InMemory supports list_with_delimiter recursively
        let mut stack = vec![None::<object_store::path::Path>];
        while let Some(prefix) = stack.pop() {
            let res = os.list_with_delimiter(prefix.as_ref()).await.map_err(|e| e.to_string())?;
            for p in res.common_prefixes {
                stack.push(Some(p));
            }
            for o in res.objects {
                let bytes = os.get(&o.location).await.map_err(|e| e.to_string())?.bytes().await.map_err(|e| e.to_string())?;
                let key = zarrs::storage::StoreKey::new(o.location.as_ref()).map_err(|e| e.to_string())?;
                mem.set(&key, bytes.to_vec().into()).map_err(|e| e.to_string())?;
            }
        }
        Ok(())
    }
}

fn fmt_csv_f64(v: f64) -> String {
    if v.is_nan() {
        "NA".into()
    } else if v.is_infinite() {
        if v > 0.0 { "Inf".into() } else { "-Inf".into() }
    } else {
        format!("{:.17}", v)
    }
}

fn compare(sc: &Scenario, schema: &Schema, rows: &[Vec<RRow>], rb: &ReadBack, p: &mut Partial, name: &str) {
    let replay = json!({"scenario": format!("{sc:?}")});
    let mut viol = |oracle: &str, detail: String, p: &mut Partial| {
        p.violation(format!("C14/{oracle}/{:?}", sc.backend), format!("{name}: {detail}"), replay.clone());
    };
    for c in 0..sc.chains {
        let recorded = &rows[c][..sc.recorded];
        let has_switch = matches!(sc.backend, Backend::Arrow | Backend::Csv | Backend::ZarrSync | Backend::ZarrSyncFs | Backend::ZarrAsync);
        let kept: Vec<&RRow> = recorded.iter().filter(|r| sc.store_warmup || !has_switch || !r.tuning).collect();
        let vars: Vec<(bool, String, ItemType)> = schema
            .stats
            .iter()
            .map(|(n, t, _)| (true, n.clone(), *t))
            .chain(schema.draws.iter().map(|(n, t)| (false, n.clone(), *t)))
            .collect();
        if sc.backend == Backend::Csv {
            // the CmdStan columns and the numeric variables, printed with 17 decimals
            let stat_cols = [("lp__", "logp"), ("stepsize__", "step_size"), ("treedepth__", "depth"), ("n_leapfrog__", "n_steps"), ("divergent__", "diverging"), ("energy__", "energy"), ("accept_stat__", "mean_tree_accept")];
            if kept.is_empty() {
                // nothing recorded: the file legitimately has no header
                continue;
            }
            for (col, stat) in stat_cols {
                let Some(Col::Rows(got)) = rb.get(&(c, false, format!("csv:{col}"))) else {
                    viol("csv-column-missing", col.to_string(), p);
                    return;
                };
                if got.len() != kept.len() {
                    viol("csv-row-count", format!("chain {c}: {} rows, expected {}", got.len(), kept.len()), p);
                    return;
                }
                for (r, row) in kept.iter().enumerate() {
                    let exp = match row.stats.iter().find(|(k, _)| k == stat).and_then(|(_, v)| v.clone()) {
                        Some(Value::ScalarF64(v)) => fmt_csv_f64(v),
                        Some(Value::ScalarU64(v)) => v.to_string(),
                        Some(Value::ScalarI64(v)) => v.to_string(),
                        Some(Value::ScalarBool(v)) => if v { "1".into() } else { "0".into() },
                        _ => if col == "divergent__" { "0".into() } else { "NA".into() },
                    };
                    if got[r] != Some(vec![Cell::Str(exp.clone())]) {
                        viol("csv-value", format!("chain {c} row {r} column {col}: {:?} expected {exp}", got[r]), p);
                        return;
                    }
                }
            }
            // numeric draw variables
            let expect_cols: Vec<(String, String, usize)> = vec![
                ("x.1".into(), "x".into(), 0), ("x.2".into(), "x".into(), 1), ("x.3".into(), "x".into(), 2),
                ("s".into(), "s".into(), 0),
                ("m.1.1".into(), "m".into(), 0), ("m.1.2".into(), "m".into(), 1), ("m.1.3".into(), "m".into(), 2), ("m.2.1".into(), "m".into(), 3), ("m.2.2".into(), "m".into(), 4), ("m.2.3".into(), "m".into(), 5),
                ("f32v.1".into(), "f32v".into(), 0), ("f32v.2".into(), "f32v".into(), 1), ("f32v.3".into(), "f32v".into(), 2),
                ("i".into(), "i".into(), 0),
                ("u.1".into(), "u".into(), 0), ("u.2".into(), "u".into(), 1), ("u.3".into(), "u".into(), 2),
            ];
            for (col, var, idx) in expect_cols {
                if !sc.rich && var == "m" {
                    continue;
                }
                let Some(Col::Rows(got)) = rb.get(&(c, false, format!("csv:{col}"))) else {
                    viol("csv-column-missing", col.clone(), p);
                    return;
                };
                for (r, row) in kept.iter().enumerate() {
                    let v = row.draws.iter().find(|(k, _)| *k == var).and_then(|(_, v)| v.clone());
                    let exp = match v {
                        Some(Value::F64(x)) => fmt_csv_f64(x[idx]),
                        Some(Value::ScalarF64(x)) => fmt_csv_f64(x),
                        Some(Value::F32(x)) => { let y = x[idx]; if y.is_nan() { "NA".into() } else if y.is_infinite() { if y > 0.0 { "Inf".into() } else { "-Inf".into() } } else { format!("{:.17}", y) } }
                        Some(Value::ScalarI64(x)) => x.to_string(),
                        Some(Value::U64(x)) => x[idx].to_string(),
                        _ => "NA".into(),
                    };
                    if got.get(r).cloned().flatten() != Some(vec![Cell::Str(exp.clone())]) {
                        viol("csv-value", format!("chain {c} row {r} column {col}: {:?} expected {exp}", got.get(r)), p);
                        return;
                    }
                }
            }
            continue;
        }
        for (is_stat, var, _ty) in &vars {
            if var == "draw" || var == "chain" {
                continue;
            }
            let expected_rows = |subset: &[&RRow]| -> Vec<Option<Vec<Cell>>> {
                subset
                    .iter()
                    .map(|r| {
                        let src = if *is_stat { &r.stats } else { &r.draws };
                        src.iter().find(|(k, _)| k == var).and_then(|(_, v)| v.as_ref()).map(cells_of)
                    })
                    .collect()
            };
            let is_zarr = matches!(sc.backend, Backend::ZarrSync | Backend::ZarrSyncFs | Backend::ZarrAsync);
            if is_zarr {
                let is_event = *is_stat && schema.stats.iter().any(|(n, _, e)| n == var && *e);
                for (phase, subset) in [("warmup", recorded.iter().filter(|r| r.tuning).collect::<Vec<_>>()), ("sample", recorded.iter().filter(|r| !r.tuning).collect::<Vec<_>>())] {
                    let exp = expected_rows(&subset);
                    let Some(Col::Dense(got)) = rb.get(&(c, *is_stat, format!("{var}#{phase}"))) else {
                        viol("array-missing", format!("{var} {phase}"), p);
                        return;
                    };
                    if phase == "warmup" && !sc.store_warmup {
                        // store_warmup = false must omit exactly the warmup draws
                        // (the arrays are preallocated from the num_tune hint and hold fill
                        // values, so only a stored value that cannot be a fill value counts)
                        let fill_like = |c: &Cell| match c {
                            Cell::F64(b) => f64::from_bits(*b).is_nan() || *b == 0,
                            Cell::F32(b) => f32::from_bits(*b).is_nan() || *b == 0,
                            Cell::I64(v) => *v == 0,
                            Cell::U64(v) => *v == 0,
                            Cell::Bool(v) => !*v,
                            Cell::Str(s) => s.is_empty(),
                        };
                        let any_written = got.iter().take(subset.len()).zip(&exp).any(|(g, e)| e.as_ref().map(|e| e == g && !e.iter().all(fill_like)).unwrap_or(false));
                        if any_written && !subset.is_empty() {
                            viol("store-warmup-false-ignored", format!("chain {c}: warmup values of {var} were written although store_warmup = false"), p);
                            return;
                        }
                        continue;
                    }
                    if is_event {
                        let present: Vec<Vec<Cell>> = exp.iter().flatten().cloned().collect();
                        // the event array holds exactly the events that occurred (per chain, the
                        // array length is the maximum over chains)
                        if got.len() < present.len() || got[..present.len()] != present[..] {
                            viol("event-array-content", format!("chain {c} {var} {phase}: stored {:?} but {} events occurred: {:?}", got.iter().take(4).collect::<Vec<_>>(), present.len(), present.iter().take(4).collect::<Vec<_>>()), p);
                            return;
                        }
                    } else {
                        for (r, e) in exp.iter().enumerate() {
                            // a statistic that is switched off is absent on every draw: the array
                            // then only holds fill values
                            let Some(e) = e.clone() else { continue };
                            if got.get(r) != Some(&e) {
                                viol("value-differs", format!("chain {c} {var} {phase} row {r}: read {:?} expected {:?}", got.get(r), e), p);
                                return;
                            }
                        }
                    }
                }
                continue;
            }
            let exp = expected_rows(&kept);
            match rb.get(&(c, *is_stat, var.clone())) {
                None => {
                    viol("variable-missing", format!("chain {c} {var}"), p);
                    return;
                }
                Some(Col::Flat(got)) => {
                    let want: Vec<Cell> = exp.iter().flatten().flatten().cloned().collect();
                    if *got != want {
                        viol("value-differs", format!("chain {c} {var}: read {:?} expected {:?}", got.iter().take(6).collect::<Vec<_>>(), want.iter().take(6).collect::<Vec<_>>()), p);
                        return;
                    }
                }
                Some(Col::Rows(got)) => {
                    if *got != exp {
                        let r = got.iter().zip(&exp).position(|(a, b)| a != b).unwrap_or(got.len().min(exp.len()));
                        viol("value-differs", format!("chain {c} {var}: {} rows (expected {}), first difference at row {r}: {:?} vs {:?}", got.len(), exp.len(), got.get(r), exp.get(r)), p);
                        return;
                    }
                }
                Some(Col::Dense(got)) => {
                    for (r, e) in exp.iter().enumerate() {
                        if let Some(e) = e {
                            if got.get(r) != Some(e) {
                                viol("value-differs", format!("chain {c} {var} row {r}: read {:?} expected {:?}", got.get(r), e), p);
                                return;
                            }
                        }
                    }
                }
            }
        }
    }
}

/// A write error of the device under the CSV files is reported by the writer: the chain file is
/// a symbolic link to /dev/full (every physical write fails with ENOSPC). Few rows: the only
/// physical write is the final flush; many rows: the buffer spills during record_sample. Some call
/// (record_sample, the chain's finalize, the trace's finalize) has to return or report the error -
/// otherwise a trace that lost all its rows would be handed back as complete.
fn csv_write_error_is_reported(p: &mut Partial) {
    if !std::path::Path::new("/dev/full").exists() {
        p.count("csv_write_error_check_skipped_no_dev_full", 1);
        return;
    }
    let t = Tweaks { num_tune: 2, num_draws: 400, maxdepth: Some(3), ..Tweaks::default() };
    let settings = crate::common::runner::diag_nuts(&t);
    let Ok((rows, _)) = make_rows(&settings, 0, 400, vec![], false) else { return };
    for n in [1usize, 3, 10, 400] {
        let math = CpuMath::new(RichDens::new(vec![]));
        let Ok(dir) = tempfile::tempdir_in(mc_core::verif_root().join(".build")) else { return };
        if std::os::unix::fs::symlink("/dev/full", dir.path().join("chain_0.csv")).is_err() {
            return;
        }
        p.evaluations += 1;
        let replay = json!({"rows": n, "chain_file": "symlink to /dev/full"});
        let outcome = std::panic::catch_unwind(std::panic::AssertUnwindSafe(|| -> Result<bool, String> {
            let trace = CsvConfig::new(dir.path()).new_trace(&settings, &math).map_err(|e| format!("{e:#}"))?;
            let mut cs = match trace.initialize_trace_for_chain(0) {
                Ok(c) => c,
                Err(_) => return Ok(true),
            };
            for row in &rows[..n] {
                if feed(&mut cs, &settings, row).is_err() {
                    return Ok(true);
                }
            }
            let fin = cs.finalize();
            if fin.is_err() {
                return Ok(true);
            }
            match trace.finalize(vec![fin]) {
                Err(_) => Ok(true),
                Ok((Some(_), _)) => Ok(true),
                Ok((None, _)) => Ok(false),
            }
        }));
        match outcome {
            Ok(Ok(true)) => p.class("csv-write-error-reported".to_string()),
            Ok(Ok(false)) => p.violation(
                format!("C14/csv-write-error-not-reported/rows{n}"),
                format!("{n} rows were recorded into a chain file on a full device; record_sample, finalize and the trace's finalize all reported success"),
                replay,
            ),
            Ok(Err(e)) => p.violation(format!("C14/csv-write-error-setup/rows{n}"), e, replay),
            Err(pn) => p.violation(format!("C14/writer-panicked/csv-write-error/rows{n}"), panic_msg(&pn), replay),
        }
    }
}

pub fn run(tier: Tier, _replay: Option<String>) -> i32 {
    let mut report = Report::new(
        "C14",
        tier,
        "exploration",
        "backends {HashMap, ndarray, Arrow, Zarr sync (memory + filesystem), Zarr async, CSV} x presets x (a warmup, b sampling rows) in 0..=3 (..=5) x chains {1,2} x store_warmup x ops {plain, flush after every record, inspect after every record} x aborted prefixes x every subset of diverging draws (a+b <= 4) x chunk sizes; rows come from real chains over a model with variables of every type x shape and special values; read-back compared with the reference trace. distinct = (backend, preset, store_warmup, ops, diverging?) classes",
    );
    report.assume("HashMap iteration order inside the Zarr back ends cannot be enumerated; each Zarr scenario is repeated (fresh RandomState per thread) - that part is repetition, not enumeration");
    let mut scs = vec![];
    let presets: Vec<Preset> = tier.pick(vec![Preset::DiagNuts, Preset::LowRankNuts, Preset::DiagMclmc], Preset::ALL.to_vec());
    let backends = [Backend::HashMap, Backend::Ndarray, Backend::Arrow, Backend::ZarrSync, Backend::ZarrSyncFs, Backend::ZarrAsync, Backend::Csv];
    let maxab = tier.pick(3usize, 4);
    for &backend in &backends {
        for &preset in &presets {
            for a in 0..=maxab {
                for b in 0..=maxab {
                    if a + b == 0 {
                        continue;
                    }
                    for chains in [1usize, 2] {
                        if chains == 2 && (a + b > 3 || tier == Tier::Quick && preset != Preset::DiagNuts) {
                            continue;
                        }
                        let has_switch = matches!(backend, Backend::Arrow | Backend::Csv | Backend::ZarrSync | Backend::ZarrAsync);
                        for store_warmup in if has_switch { vec![true, false] } else { vec![true] } {
                            for ops in [Ops::Plain, Ops::FlushEach, Ops::InspectEach] {
                                if ops != Ops::Plain && (a + b > 3 || chains == 2) {
                                    continue;
                                }
                                let n = a + b;
                                let masks: Vec<u32> = if n <= 4 && preset == Preset::DiagNuts && ops == Ops::Plain && chains == 1 { (0..(1u32 << n)).collect() } else { vec![0, 0b10 & ((1 << n) - 1)] };
                                for div_mask in masks {
                                    let chunks: Vec<u64> = if matches!(backend, Backend::ZarrSync | Backend::ZarrAsync) && div_mask == 0 { vec![1, 2, 100] } else { vec![2] };
                                    for chunk in chunks {
                                        let mut recs = vec![n];
                                        if ops == Ops::Plain && div_mask == 0 && n >= 2 {
                                            recs.push(n - 1);
                                            recs.push(1);
                                        }
                                        recs.dedup();
                                        for recorded in recs {
                                            if backend == Backend::ZarrSyncFs && !(ops == Ops::Plain && chunk == 2 && div_mask == 0 && recorded == n && a <= 2 && b <= 2) {
                                                continue;
                                            }
                                            let rich = true;
                                            scs.push(Scenario { preset, backend, a, b, recorded, chains, store_warmup, ops, div_mask, div_mask1: None, chunk, rich });
                                            // two chains with different event histories (every pair of patterns)
                                            if chains == 2 && preset == Preset::DiagNuts && ops == Ops::Plain && div_mask == 0 && chunk == 2 && recorded == n && n <= 3 && store_warmup && backend != Backend::ZarrSyncFs {
                                                for m0 in 0..(1u32 << n) {
                                                    for m1 in 0..(1u32 << n) {
                                                        if m0 != m1 {
                                                            scs.push(Scenario { preset, backend, a, b, recorded, chains, store_warmup, ops, div_mask: m0, div_mask1: Some(m1), chunk, rich });
                                                        }
                                                    }
                                                }
                                            }
                                        }
                                    }
                                }
                            }
                        }
                    }
                }
            }
        }
    }
    report.bounds = json!({"scenarios": scs.len(), "max_rows_per_phase": maxab});
    let _ = std::fs::create_dir_all(mc_core::verif_root().join(".build"));
    mc_core::par_for_each(&scs, |i, sc| {
        let mut p = Partial::new();
        let mut t = Tweaks::default();
        t.num_tune = sc.a as u64;
        t.num_draws = sc.b as u64;
        t.maxdepth = Some(3);
        t.store_divergences = true;
        t.store_unconstrained = true;
        t.store_gradient = true;
        t.store_mass_matrix = true;
        t.dynamic_step_size = Some(false);
        t.mclmc_length = Some(1.0);
        t.early_switch_freq = Some(2);
        with_settings!(sc.preset, &t, |s| {
            let mut s = s;
            set_chains(&mut s, sc.chains);
            // the Zarr back ends iterate HashMaps (per-instance random hash keys): repeat
            let reps = if matches!(sc.backend, Backend::ZarrSync | Backend::ZarrAsync) { tier.pick(3usize, 8) } else { 1 };
            for _ in 0..reps {
                run_scenario(sc, &s, &mut p);
                p.count("backend_runs", 1);
            }
        });
        if i % 499 == 7 {
            p.sample(json!({"scenario": sc.name()}));
        }
        report.merge(p);
    });
    {
        let mut p = Partial::new();
        csv_write_error_is_reported(&mut p);
        report.merge(p);
    }
    report.finish()
}

pub trait SetChains {
    fn set(&mut self, n: usize);
}
impl<A: std::fmt::Debug + Copy + Default + serde::Serialize> SetChains for nuts_rs::NutsSettings<A> {
    fn set(&mut self, n: usize) {
        self.num_chains = n;
    }
}
impl<A: std::fmt::Debug + Copy + Default + serde::Serialize> SetChains for nuts_rs::MclmcSettings<A> {
    fn set(&mut self, n: usize) {
        self.num_chains = n;
    }
}
fn set_chains<S: SetChains>(s: &mut S, n: usize) {
    s.set(n)
}
