//! C01 — one NUTS transition is reversible with respect to the target.
//!
//! The real `nuts::draw` is driven with a scripted RNG (direction = sign bit of next_u32, accept =
//! next_u64 against the Bernoulli threshold) and a scripted momentum. For every configuration of
//! a finite grid EVERY sequence of doubling directions and EVERY accept/reject answer is executed:
//!  (1) each execution agrees with the reference NUTS (R-nuts) on the same answer vector,
//!  (2) a second pass answers every accept decision just below / just above the reference
//!      probability, which pins the implementation's threshold (tree weights, biased vs uniform
//!      progressive sampling) to 1e-9,
//!  (3) exactly one direction bit per doubling, nothing else consulted,
//!  (4) the exact kernel row P(z -> .) is assembled from the validated probabilities, the
//!      implementation is re-run from every reachable z' over all its answer vectors, and
//!      pi(z) P(z -> z') = pi(z') P(z' -> z) is asserted,
//!  (5) from z' with the mirrored directions the same states are visited and doubling stops at the
//!      same depth.

use std::cell::RefCell;
use std::collections::BTreeMap;
use std::rc::Rc;

use faer::Mat;
use mc_core::{explore, Ctx, Partial, Report, Tier};
use nuts_rs::verif::{self as nv, Hamiltonian, LowRankMassMatrix, NutsOptions, TransformedHamiltonian, Transformation};
use nuts_rs::{KineticEnergyKind, LowRankSettings, Math};
use rand::rngs::ChaCha8Rng;
use rand::SeedableRng;
use serde_json::json;

use crate::c02::{col, orthonormal, Trafo, M};
use crate::common::models::{correlated_gaussian_3d, Dens, Target};
use crate::common::rng::{ScriptedRng, DIR_BACKWARD, DIR_FORWARD};
use crate::common::rnuts::*;
use crate::common::spy::SpyMath;
use crate::with_sys;

#[derive(Clone, Debug)]
struct Cfg {
    name: String,
    target: Target,
    trafo: Trafo,
    kind: KineticEnergyKind,
    step: f64,
    x0: Vec<f64>,
    z0: Vec<f64>,
    maxdepth: u64,
    /// the transition starts from a state that was NOT whitened under the active transformation
    /// (as the first draw after a mass-matrix update does): initialize_trajectory has to re-derive it
    stale_start: bool,
}

#[derive(Clone, Debug, PartialEq)]
struct Outcome {
    selected: i64,
    depth: u64,
    reached_maxdepth: bool,
    diverging: bool,
    leaps: Vec<(i64, i64)>,
    drawn_x: Vec<f64>,
}

/// replace the transformation of a running system (every call bumps the transformation id)
trait Install {
    fn install(&mut self, math: &mut M, t: &Trafo);
    fn install_other(&mut self, math: &mut M, d: usize);
}
impl Install for nv::DiagMassMatrix<M> {
    fn install(&mut self, math: &mut M, t: &Trafo) {
        if let Trafo::Diag { stds, mean } = t {
            nv::diag_mass_matrix_set(self, math, &col(stds), &col(mean));
        }
    }
    fn install_other(&mut self, math: &mut M, d: usize) {
        let stds: Vec<f64> = (0..d).map(|i| 2.0 + 0.5 * i as f64).collect();
        nv::diag_mass_matrix_set(self, math, &col(&stds), &col(&vec![-0.3; d]));
    }
}
impl Install for LowRankMassMatrix<M> {
    fn install(&mut self, math: &mut M, t: &Trafo) {
        if let Trafo::LowRank { stds, mean, vals, vecs, mu_inner } = t {
            let d = stds.len();
            let vm: Mat<f64> = Mat::from_fn(d, vals.len(), |i, j| vecs[j][i]);
            self.update(math, col(stds), col(mean), col(vals), vm, col(mu_inner));
        }
    }
    fn install_other(&mut self, math: &mut M, d: usize) {
        let stds: Vec<f64> = (0..d).map(|i| 2.0 + 0.5 * i as f64).collect();
        self.update(math, col(&stds), col(&vec![-0.3; d]), col(&[]), Mat::from_fn(d, 0, |_, _| 0.0), col(&vec![0.0; d]));
    }
}

/// one execution of the real transition from (x0, z0) with the given RNG
fn run_impl<T: Transformation<M> + Install, R: rand::Rng>(
    s: &mut crate::c02::Sys<T>,
    cfg: &Cfg,
    x0: &[f64],
    z0: &[f64],
    rng: &mut R,
) -> Result<(Outcome, Recorded), String> {
    let mut init = if cfg.stale_start {
        // whiten the start state under ANOTHER transformation, then install the configured one
        s.h.transformation_mut().install_other(&mut s.math, x0.len());
        let st = s.h.init_state(&mut s.math, x0).map_err(|e| format!("init_state: {e}"))?;
        s.h.transformation_mut().install(&mut s.math, &cfg.trafo);
        st
    } else {
        s.h.init_state(&mut s.math, x0).map_err(|e| format!("init_state: {e}"))?
    };
    s.spy.borrow_mut().gaussian_script.clear();
    s.spy.borrow_mut().gaussian_script.push_back(z0.to_vec());
    let rec = Rc::new(RefCell::new(Recorded::default()));
    let mut coll = RecCollector { rec: rec.clone() };
    let opts = NutsOptions {
        maxdepth: cfg.maxdepth,
        mindepth: 0,
        check_turning: true,
        store_divergences: false,
        target_integration_time: None,
        extra_doublings: 0,
        max_energy_error: 1000.0,
    };
    let n_gauss_before = s.spy.borrow().n_gaussian;
    let drawn = std::panic::catch_unwind(std::panic::AssertUnwindSafe(|| {
        nv::nuts_draw(&mut s.math, &mut init, rng, &mut s.h, &opts, &mut coll)
    }));
    let (state, info) = match drawn {
        Ok(r) => r.map_err(|e| format!("draw: {e}"))?,
        Err(p) => return Err(format!("nuts::draw panicked: {}", crate::common::runner::panic_msg(&p))),
    };
    let n_gauss = s.spy.borrow().n_gaussian - n_gauss_before;
    if n_gauss != 1 {
        return Err(format!("momentum drawn {n_gauss} times in one transition"));
    }
    let r = rec.borrow().clone();
    let out = Outcome {
        selected: state.index_in_trajectory(),
        depth: info.depth,
        reached_maxdepth: info.reached_maxdepth,
        diverging: info.divergence_info.is_some(),
        leaps: r.leaps.clone(),
        drawn_x: s.math.box_array(nuts_rs::verif::Point::position(state.point())).to_vec(),
    };
    Ok((out, r))
}

struct ExecInfo {
    answers: Vec<Ans>,
    out: Outcome,
    refr: RefResult,
    /// (choices before the accept call) -> reference probability
    probe_keys: Vec<(Vec<u32>, f64)>,
    choices: Vec<u32>,
}

#[derive(Default)]
struct RowResult {
    /// selected index -> probability mass
    row: BTreeMap<i64, f64>,
    execs: Vec<ExecInfo>,
    states: BTreeMap<i64, St>,
    ill_conditioned: u64,
    total_prob: f64,
}

const MARGIN: f64 = 1e-7;

/// explore every answer vector from (x0, z0); compare every execution with R-nuts
fn explore_from<T: Transformation<M> + Install>(
    s: &mut crate::c02::Sys<T>,
    cfg: &Cfg,
    x0: &[f64],
    z0: &[f64],
    p: &mut Partial,
    tag: &str,
    probe: Option<&BTreeMap<Vec<u32>, f64>>,
    expected: Option<&BTreeMap<Vec<u32>, Outcome>>,
) -> Option<RowResult> {
    let key = format!("{}/{tag}", cfg.name);
    let mut res = RowResult::default();
    let mut failed: Option<(String, String, serde_json::Value)> = None;
    let dim = x0.len();
    let stats = explore(None, 2_000_000, |ctx: &mut Ctx| {
        if failed.is_some() {
            return;
        }
        let mode = match probe {
            None => AcceptMode::Extreme,
            Some(_) => AcceptMode::Extreme, // replaced below through the probe map
        };
        let mut rng = CtxRng::new(ctx, mode);
        if let Some(map) = probe {
            rng.probe_map = Some(map.clone());
        }
        let answers_rc = rng.answers.clone();
        let keys_rc = rng.accept_keys.clone();
        let r = run_impl(s, cfg, x0, z0, &mut rng);
        drop(rng);
        let answers = answers_rc.borrow().clone();
        let choices = ctx.choices();
        let replay = json!({"config": cfg.name, "from": tag, "answers": format!("{answers:?}"), "choices": choices});
        let (out, rec) = match r {
            Ok(v) => v,
            Err(e) => {
                failed = Some((format!("C01/transition-failed/{key}"), e, replay));
                return;
            }
        };
        // ---- (3) exactly one direction bit per doubling ----
        let n_dir = answers.iter().filter(|a| matches!(a, Ans::Dir(_))).count() as u64;
        let doublings_started = {
            // every doubling starts with a leapfrog from the tree edge; count via reference below
            n_dir
        };
        let _ = doublings_started;
        if let Some(exp) = expected {
            // pass 2: same choice vector must give the same outcome although the accept answers
            // sit just inside the reference probability
            match exp.get(&choices) {
                Some(o) if *o == out => {}
                Some(o) => {
                    failed = Some((
                        format!("C01/accept-threshold-differs-from-reference-probability/{key}"),
                        format!("with accept answers at p_ref(1-+1e-9) the transition selects index {} depth {} instead of index {} depth {}", out.selected, out.depth, o.selected, o.depth),
                        replay,
                    ));
                }
                None => {
                    failed = Some((
                        format!("C01/accept-threshold-differs-from-reference-probability/{key}"),
                        "the probing pass met an answer vector the first pass did not (a decision flipped)".into(),
                        replay,
                    ));
                }
            }
            res.total_prob += 1.0;
            return;
        }
        // ---- (1) R-nuts on the same answers ----
        let ro = RefOptions { maxdepth: cfg.maxdepth, mindepth: 0, max_energy_error: 1000.0, dim };
        let refr = match reference(&rec, &answers, &ro) {
            Ok(r) => r,
            Err(crate::common::rnuts::RefErr::IllConditioned(..)) => {
                res.ill_conditioned += 1;
                return;
            }
            Err(e) => {
                failed = Some((format!("C01/differs-from-reference-nuts/{key}"), format!("{e:?}"), replay));
                return;
            }
        };
        if refr.min_margin < MARGIN {
            res.ill_conditioned += 1;
            return;
        }
        let impl_leaps: Vec<i64> = out.leaps.iter().map(|(f, t)| if *t == i64::MAX { *f } else { *t }).collect();
        let ref_leaps: Vec<i64> = refr.leaps.clone();
        let stop_ok = match refr.stop {
            Stop::MaxDepth => out.reached_maxdepth && !out.diverging,
            Stop::Diverging => out.diverging && !out.reached_maxdepth,
            _ => !out.reached_maxdepth && !out.diverging,
        };
        let same_leaps = impl_leaps.len() == ref_leaps.len()
            && impl_leaps.iter().zip(&ref_leaps).all(|(a, b)| a == b || out.diverging);
        if out.selected != refr.selected || out.depth != refr.depth || !stop_ok || !same_leaps || refr.consumed != answers.len() || n_dir != refr.depth + if matches!(refr.stop, Stop::SubtreeTurning | Stop::Diverging) { 1 } else { 0 } {
            failed = Some((
                format!("C01/differs-from-reference-nuts/{key}"),
                format!(
                    "implementation: index {} depth {} maxdepth={} diverging={} leapfrogs {:?} answers consumed {} (directions {n_dir}); reference: index {} depth {} stop {:?} leapfrogs {:?} consumed {}",
                    out.selected, out.depth, out.reached_maxdepth, out.diverging, impl_leaps, answers.len(), refr.selected, refr.depth, refr.stop, ref_leaps, refr.consumed
                ),
                replay,
            ));
            return;
        }
        // the returned state is the recorded state of the selected index
        if let Some(st) = rec.states.get(&out.selected) {
            if !mc_core::slice_bits_eq(&st.x, &out.drawn_x) {
                failed = Some((format!("C01/returned-state-is-not-the-selected-one/{key}"), format!("index {}", out.selected), replay));
                return;
            }
        }
        *res.row.entry(out.selected).or_insert(0.0) += refr.prob;
        res.total_prob += refr.prob;
        for (i, st) in &rec.states {
            if *i != i64::MAX && !st.diverged {
                res.states.entry(*i).or_insert_with(|| st.clone());
            }
        }
        let keys = keys_rc.borrow().clone();
        let probe_keys: Vec<(Vec<u32>, f64)> = keys.into_iter().zip(refr.accept_probs.iter().copied()).collect();
        res.execs.push(ExecInfo { answers, out, refr, probe_keys, choices });
    });
    if let Some((k, d, r)) = failed {
        p.violation(k, d, r);
        return None;
    }
    match stats {
        Ok(st) => {
            p.add_explore(&st);
            p.validated += st.executions;
        }
        Err(e) => {
            p.violation(format!("C01/MACHINERY-replay-divergence/{key}"), e, json!({"config": cfg.name}));
            return None;
        }
    }
    Some(res)
}

fn check_config(cfg: &Cfg, p: &mut Partial, tier: Tier) {
    let d = cfg.x0.len();
    with_sys!(d, &cfg.trafo, cfg.target, cfg.kind, |s| {
        *s.h.step_size_mut() = cfg.step;
        // pass 1 from z0
        let Some(fwd) = explore_from(&mut s, cfg, &cfg.x0, &cfg.z0, p, "z0", None, None) else { return };
        p.class(format!("{}:{:?}:maxdepth{}", cfg.name.split('/').next().unwrap_or(""), cfg.kind, cfg.maxdepth));
        for e in &fwd.execs {
            p.class(format!("outcome:{:?}:depth{}:idx{}", e.refr.stop, e.refr.depth, e.out.selected.signum()));
        }
        if fwd.ill_conditioned > 0 {
            p.count("configs_with_ill_conditioned_executions_(excluded_from_detailed_balance)", 1);
            p.count("ill_conditioned_executions", fwd.ill_conditioned);
            return;
        }
        if (fwd.total_prob - 1.0).abs() > 1e-9 {
            p.violation(format!("C01/answer-probabilities-do-not-sum-to-one/{}", cfg.name), format!("{}", fwd.total_prob), json!({"config": cfg.name}));
            return;
        }
        // pass 2: probe every accept threshold
        let mut probe: BTreeMap<Vec<u32>, f64> = BTreeMap::new();
        let mut expected: BTreeMap<Vec<u32>, Outcome> = BTreeMap::new();
        for e in &fwd.execs {
            for (k, pr) in &e.probe_keys {
                probe.insert(k.clone(), *pr);
            }
            expected.insert(e.choices.clone(), e.out.clone());
        }
        if explore_from(&mut s, cfg, &cfg.x0, &cfg.z0, p, "z0-probe", Some(&probe), Some(&expected)).is_none() {
            return;
        }
        // (3b; round 13, after C01k) the density in the balance equation must be the *target's*:
        // the energy attached to every trajectory state is recomputed from its own position
        // (the model's log density) and velocity (1/2 |v|^2 in plain scalar arithmetic); the
        // log-determinant is the same for all states of one trajectory and cancels
        {
            let h_ref = |st: &crate::common::rnuts::St| -> f64 {
                let mut g = vec![0.0; st.x.len()];
                let lp = cfg.target.logp(&st.x, &mut g);
                0.5 * st.v.iter().map(|a| a * a).sum::<f64>() - lp
            };
            let s0 = &fwd.states[&0];
            let h0 = h_ref(s0);
            for (i, st) in &fwd.states {
                if st.diverged || !st.energy.is_finite() {
                    continue;
                }
                let d_impl = st.energy - s0.energy;
                let d_ref = h_ref(st) - h0;
                p.count("state_energies_recomputed_from_position_and_velocity", 1);
                if !((d_impl - d_ref).abs() <= 1e-8 * (1.0 + h0.abs().max(d_ref.abs()))) {
                    p.violation(
                        format!("C01/energy-is-not-the-hamiltonian-of-the-target/{}", cfg.name),
                        format!("state {i}: energy difference to the start {d_impl:e}, but -logp + |v|^2/2 differs by {d_ref:e}"),
                        json!({"config": cfg.name, "index": i}),
                    );
                    return;
                }
            }
        }
        // (4) detailed balance against every reachable z'
        let e0 = fwd.states[&0].energy;
        for (&i, &p_fwd) in &fwd.row {
            if i == 0 || p_fwd <= 0.0 {
                continue;
            }
            let zi = &fwd.states[&i];
            let Some(rev) = explore_from(&mut s, cfg, &zi.x.clone(), &zi.v.clone(), p, &format!("z{i}"), None, None) else { return };
            if rev.ill_conditioned > 0 {
                p.count("reverse_runs_with_ill_conditioned_executions", 1);
                continue;
            }
            let p_rev = rev.row.get(&(-i)).copied().unwrap_or(0.0);
            let lhs = p_fwd; // pi(z0) = 1 (relative)
            let rhs = (-(zi.energy - e0)).exp() * p_rev;
            p.count("detailed_balance_pairs_checked", 1);
            if !mc_core::rel_close(lhs, rhs, 1e-6, 1e-12) {
                p.violation(
                    format!("C01/detailed-balance-violated/{}", cfg.name),
                    format!("pi(z)P(z->z') = {lhs:e} but pi(z')P(z'->z) = {rhs:e} for z' = index {i} (P(z->z')={p_fwd:e}, P(z'->z)={p_rev:e}, energy difference {:e})", zi.energy - e0),
                    json!({"config": cfg.name, "index": i}),
                );
                return;
            }
        }
        // (5) mirrored directions from z' = selected / ends of the tree: same states, same depth
        let max_mirror = tier.pick(40, 400);
        for e in fwd.execs.iter().take(max_mirror) {
            let r = &e.refr;
            let k = r.depth;
            let mut targets = vec![e.out.selected, r.left, r.right];
            targets.sort();
            targets.dedup();
            for i in targets {
                if i == 0 {
                    continue;
                }
                let Some(zi) = fwd.states.get(&i) else { continue };
                let l = r.left;
                let mut dirs: Vec<bool> = (0..k).map(|j| (((i - l) >> j) & 1) == 0).collect();
                // the doubling that was rejected (or never happened) keeps its absolute direction
                let fdirs: Vec<bool> = e.answers.iter().filter_map(|a| if let Ans::Dir(f) = a { Some(*f) } else { None }).collect();
                if fdirs.len() as u64 > k {
                    dirs.push(*fdirs.last().unwrap());
                }
                let dirs2 = dirs.clone();
                let mut di = 0usize;
                let mut rng = ScriptedRng::new(
                    Box::new(move |_| {
                        let f = dirs2.get(di).copied().unwrap_or(true);
                        di += 1;
                        if f { DIR_FORWARD } else { DIR_BACKWARD }
                    }),
                    Box::new(|_| 0),
                );
                let (x, v) = (zi.x.clone(), zi.v.clone());
                match run_impl(&mut s, cfg, &x, &v, &mut rng) {
                    Ok((o, rec)) => {
                        p.evaluations += 1;
                        let mut visited: Vec<i64> = rec.states.keys().filter(|q| **q != i64::MAX).map(|q| q + i).collect();
                        visited.sort();
                        let mut fwd_visited: Vec<i64> = e.out.leaps.iter().filter(|(_, t)| *t != i64::MAX).map(|(_, t)| *t).collect();
                        fwd_visited.push(0);
                        fwd_visited.sort();
                        fwd_visited.dedup();
                        if o.depth != e.out.depth || o.reached_maxdepth != e.out.reached_maxdepth || o.diverging != e.out.diverging || visited != fwd_visited {
                            p.violation(
                                format!("C01/mirrored-trajectory-differs/{}", cfg.name),
                                format!("from index {i} with mirrored directions {dirs:?}: depth {} (forward {}), visited {:?} (forward {:?})", o.depth, e.out.depth, visited, fwd_visited),
                                json!({"config": cfg.name, "forward_answers": format!("{:?}", e.answers), "from_index": i}),
                            );
                            return;
                        }
                        p.count("mirror_runs", 1);
                    }
                    Err(m) => {
                        p.violation(format!("C01/mirror-run-failed/{}", cfg.name), m, json!({"config": cfg.name}));
                        return;
                    }
                }
            }
        }
        if p.samples.is_empty() {
            p.sample(json!({"config": cfg.name, "executions_from_z0": fwd.execs.len(), "kernel_row": fwd.row.iter().map(|(i, q)| json!([i, q])).collect::<Vec<_>>(),
                "example_answers": format!("{:?}", fwd.execs.last().map(|e| &e.answers))}));
        }
    });
}

pub fn run(tier: Tier, _replay: Option<String>) -> i32 {
    let mut report = Report::new(
        "C01",
        tier,
        "model_checking",
        "for every configuration of the grid (targets x transformations x kinetic kinds x step sizes x start point/momentum x maxdepth) every answer vector (doubling directions x accept/reject of every merge) of the real nuts::draw is executed; states = choice points visited, transitions = answers taken, traces validated = executions compared step by step with R-nuts; distinct = (stop reason, depth, sign of selected index) and configuration classes",
    );
    report.assume("the integrator itself is checked under C02; here trajectories are taken as recorded from the implementation");
    report.assume("executions whose smallest decision margin (U-turn product, weight comparison, divergence threshold) is below 1e-7 are counted as ill-conditioned and not judged");
    report.assume("the grid stands for the continuum of densities / step sizes; the accept-threshold probes bind every tree weight to the energies");
    let mut cfgs = vec![];
    let targets: Vec<(&str, Target, Vec<Vec<f64>>, Vec<Vec<f64>>)> = vec![
        ("stdnormal2", Target::std_normal(2), vec![vec![0.3, -0.8], vec![1.4, 0.2]], vec![vec![0.9, -0.4], vec![-0.3, 1.2]]),
        ("corr3", correlated_gaussian_3d(), vec![vec![0.2, -0.5, 0.7], vec![1.0, -1.6, 0.1]], vec![vec![0.5, 0.8, -0.6], vec![-1.1, 0.2, 0.4]]),
        ("banana2", Target::Banana { s: 1.5, b: 0.4 }, vec![vec![0.5, 0.3], vec![-1.2, 0.9]], vec![vec![0.7, -0.5], vec![-0.4, -0.9]]),
        ("quartic1", Target::Quartic { d: 1 }, vec![vec![0.6], vec![-1.1]], vec![vec![0.8], vec![-0.5]]),
        // long enough for the unrolled SIMD loops of the vector kernels (16 lanes x 1 + 1)
        (
            "aniso17",
            Target::DiagNormal { mu: (0..17).map(|i| 0.1 * i as f64 - 0.8).collect(), sigma: (0..17).map(|i| 0.5 + 0.15 * i as f64).collect() },
            vec![(0..17).map(|i| 0.3 * ((i * 7 % 5) as f64) - 0.6).collect(), (0..17).map(|i| 0.9 - 0.11 * i as f64).collect()],
            vec![(0..17).map(|i| 0.8 - 0.1 * i as f64).collect(), (0..17).map(|i| 0.25 * ((i * 3 % 7) as f64) - 0.7).collect()],
        ),
        // (round 13, after C01k) two rounds of the 4x-unrolled SIMD bodies plus a tail: an
        // accumulator that is overwritten instead of accumulated only shows from length 32 on
        (
            "aniso33",
            Target::DiagNormal { mu: (0..33).map(|i| 0.05 * i as f64 - 0.83).collect(), sigma: (0..33).map(|i| 0.5 + 0.07 * i as f64).collect() },
            vec![(0..33).map(|i| 0.3 * ((i * 7 % 5) as f64) - 0.6).collect(), (0..33).map(|i| 0.9 - 0.055 * i as f64).collect()],
            vec![(0..33).map(|i| 0.8 - 0.05 * i as f64).collect(), (0..33).map(|i| 0.25 * ((i * 3 % 7) as f64) - 0.7).collect()],
        ),
    ];
    for (tn, target, xs, zs) in &targets {
        let d = target.dim();
        let mut trafos = vec![
            ("identity", Trafo::Diag { stds: vec![1.0; d], mean: vec![0.0; d] }),
            ("diag", Trafo::Diag { stds: (0..d).map(|i| if i % 2 == 0 { 0.3 } else { 4.0 }).collect(), mean: vec![0.1; d] }),
        ];
        if d >= 2 {
            for r in [1, d] {
                trafos.push((
                    if r == 1 { "lowrank1" } else { "lowrankfull" },
                    Trafo::LowRank {
                        stds: (0..d).map(|i| if i % 2 == 0 { 0.7 } else { 1.6 }).collect(),
                        mean: vec![0.05; d],
                        vals: (0..r).map(|j| [4.0, 0.25, 2.0][j % 3]).collect(),
                        vecs: orthonormal(d, r),
                        mu_inner: vec![0.0; d],
                    },
                ));
            }
        }
        for (trn, trafo) in trafos {
            for kind in [KineticEnergyKind::Euclidean, KineticEnergyKind::ExactNormal] {
                for step in tier.pick(vec![0.15, 0.6], vec![0.15, 0.6, 1.3]) {
                    for (pi, x0) in xs.iter().enumerate() {
                        for (zi, z0) in zs.iter().enumerate() {
                            if tier == Tier::Quick && pi != zi {
                                continue;
                            }
                            for maxdepth in tier.pick(vec![2, 3], vec![1, 2, 3, 4]) {
                                if d > 3 && (maxdepth > 2 || trn == "lowrankfull") {
                                    continue;
                                }
                                // depth 4 (up to 2^15 accept vectors per start, re-explored from
                                // every reachable state) only on a sub-grid
                                if maxdepth == 4 && !(pi == 0 && zi == 0 && step == 0.6 && (trn == "identity" || trn == "lowrank1" || d == 1)) {
                                    continue;
                                }
                                cfgs.push(Cfg {
                                    name: format!("{tn}-{trn}-{kind:?}-eps{step}-x{pi}-z{zi}-maxdepth{maxdepth}"),
                                    target: target.clone(),
                                    trafo: trafo.clone(),
                                    kind,
                                    step,
                                    x0: x0.clone(),
                                    z0: z0.clone(),
                                    maxdepth,
                                    stale_start: false,
                                });
                                // the same transition from a state whitened under another
                                // transformation (log-determinant != 0 for these three)
                                if trn != "identity" && maxdepth == 2 && pi == zi {
                                    cfgs.push(Cfg {
                                        name: format!("{tn}-{trn}-{kind:?}-eps{step}-x{pi}-z{zi}-maxdepth{maxdepth}-stale-start"),
                                        target: target.clone(),
                                        trafo: trafo.clone(),
                                        kind,
                                        step,
                                        x0: x0.clone(),
                                        z0: z0.clone(),
                                        maxdepth,
                                        stale_start: true,
                                    });
                                }
                            }
                        }
                    }
                }
            }
        }
    }
    report.bounds = json!({"configurations": cfgs.len(), "max_depth": tier.pick(3, 4), "decision_margin": MARGIN, "probe_delta": PROBE_DELTA});
    mc_core::par_for_each(&cfgs, |_, c| {
        let mut p = Partial::new();
        check_config(c, &mut p, tier);
        report.merge(p);
    });
    report.finish()
}

#[allow(dead_code)]
fn _unused(_: Mat<f64>, _: LowRankMassMatrix<M>, _: LowRankSettings, _: ChaCha8Rng, _: TransformedHamiltonian<M, LowRankMassMatrix<M>>) {
    let _ = (col(&[]), ChaCha8Rng::seed_from_u64(0), SpyMath::<Dens>::new);
}
