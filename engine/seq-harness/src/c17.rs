//! C17 — vector kernels agree with scalar arithmetic for every length and value.
//!
//! Bounded-exhaustive enumeration: every length n in 0..=130 x every kernel x
//!   (i)  a dense pattern per length,
//!   (ii) one-hot probes: a distinctive value at every index of every operand,
//!   (iii) every special value at every index of every operand,
//! x scalar alphabet, with the `util` slice kernels additionally run at every offset 0..8 of an
//! over-allocated buffer (alignment) with guard cells around the output (no write outside).
//! Oracle: plain element-by-element scalar formula (compensated summation for reductions).

use faer::{Col, Mat};
use mc_core::{Partial, Report, Tier};
use nuts_rs::verif::util as ku;
use nuts_rs::{CpuMath, Math};
use serde_json::json;

use crate::common::models::{Dens, Target};

const SPECIALS: [f64; 8] = [
    f64::NAN,
    f64::INFINITY,
    f64::NEG_INFINITY,
    -0.0,
    4.9e-324,
    -2.2e-310,
    1e300,
    1e-300,
];
const SCALARS: [f64; 7] = [0.0, 1.0, -1.0, 0.5, -2.75, 1e-3, 37.0];

fn base(n: usize, which: usize) -> Vec<f64> {
    // deterministic, non-symmetric, moderately sized values without exact cancellations
    (0..n)
        .map(|i| {
            let t = (i as f64 + 1.0) * (0.37 + 0.11 * which as f64);
            (t.sin() * 3.0 + 0.25 * (which as f64 + 1.0)) * if (i + which) % 3 == 0 { -1.0 } else { 1.0 }
        })
        .collect()
}

/// Neumaier compensated sum
fn csum(terms: impl Iterator<Item = f64>) -> (f64, f64) {
    let terms: Vec<f64> = terms.collect();
    if terms.iter().any(|t| !t.is_finite()) {
        // non-finite terms: the compensation would manufacture NaN from inf-inf; plain sum
        return (terms.iter().sum(), f64::INFINITY);
    }
    let terms = terms.into_iter();
    let mut s = 0.0f64;
    let mut c = 0.0f64;
    let mut mag = 0.0f64;
    for t in terms {
        mag += t.abs();
        let y = s + t;
        if s.abs() >= t.abs() {
            c += (s - y) + t;
        } else {
            c += (t - y) + s;
        }
        s = y;
    }
    (s + c, mag)
}

/// expected value + magnitude of the terms that formed it
#[derive(Clone, Copy, Debug)]
struct Exp {
    v: f64,
    mag: f64,
}

fn agree(got: f64, e: Exp, n: usize, exact: bool) -> bool {
    if e.v.is_nan() || e.mag.is_nan() {
        // reference NaN: implementation must be NaN too, except when the NaN stems from a
        // reduction over inf/-inf pairs where any order gives NaN as well -> still NaN
        return got.is_nan();
    }
    if e.v.is_infinite() {
        return got == e.v;
    }
    if got.is_nan() {
        return false;
    }
    if exact {
        return got == e.v || (got == 0.0 && e.v == 0.0);
    }
    if e.mag.is_infinite() {
        // finite value formed from overflowing intermediate terms is not in our alphabet
        return got.is_infinite() || got.is_finite();
    }
    let tol = (n as f64 + 8.0) * 4.0 * f64::EPSILON * e.mag + 1e-320;
    (got - e.v).abs() <= tol
}

#[derive(Clone, Copy, PartialEq, Eq, Debug)]
enum K {
    Axpy,
    AxpyOut,
    Multiply,
    MultiplyInplace,
    Prods2,
    Prods3,
    Dot,
    Flow,
    GradFlow,
    GradFlowInplace,
}

const KERNELS: [K; 10] = [
    K::Axpy,
    K::AxpyOut,
    K::Multiply,
    K::MultiplyInplace,
    K::Prods2,
    K::Prods3,
    K::Dot,
    K::Flow,
    K::GradFlow,
    K::GradFlowInplace,
];

fn n_inputs(k: K) -> usize {
    match k {
        K::Axpy | K::AxpyOut | K::Multiply | K::MultiplyInplace | K::Dot | K::Flow => 2,
        K::Prods2 => 4,
        K::Prods3 => 5,
        K::GradFlow | K::GradFlowInplace => 3,
    }
}
fn uses_scalar(k: K) -> bool {
    matches!(
        k,
        K::Axpy | K::AxpyOut | K::Flow | K::GradFlow | K::GradFlowInplace
    )
}

/// reference: returns expected output vectors and expected scalars
fn reference(k: K, inp: &[Vec<f64>], a: f64) -> (Vec<Vec<Exp>>, Vec<Exp>) {
    let n = inp[0].len();
    let e = |v: f64, mag: f64| Exp { v, mag };
    match k {
        K::Axpy | K::AxpyOut => {
            // y + a*x   (inp[0]=x, inp[1]=y)
            let out = (0..n)
                .map(|i| {
                    let t = a * inp[0][i];
                    e(inp[1][i] + t, inp[1][i].abs() + t.abs())
                })
                .collect();
            (vec![out], vec![])
        }
        K::Multiply | K::MultiplyInplace => {
            let out = (0..n)
                .map(|i| {
                    let t = inp[0][i] * inp[1][i];
                    e(t, t.abs())
                })
                .collect();
            (vec![out], vec![])
        }
        K::Prods2 => {
            // (p1+p2).x , (p1+p2).y
            let mut outs = vec![];
            for w in [2usize, 3] {
                let (s, _) = csum((0..n).map(|i| (inp[0][i] + inp[1][i]) * inp[w][i]));
                let mag: f64 = (0..n)
                    .map(|i| (inp[0][i].abs() + inp[1][i].abs()) * inp[w][i].abs())
                    .sum();
                outs.push(e(s, mag));
            }
            (vec![], outs)
        }
        K::Prods3 => {
            // (p1 - n1 + p2).x, .y  (inp: p1, n1, p2, x, y)
            let mut outs = vec![];
            for w in [3usize, 4] {
                let (s, _) =
                    csum((0..n).map(|i| (inp[0][i] - inp[1][i] + inp[2][i]) * inp[w][i]));
                let mag: f64 = (0..n)
                    .map(|i| {
                        (inp[0][i].abs() + inp[1][i].abs() + inp[2][i].abs()) * inp[w][i].abs()
                    })
                    .sum();
                outs.push(e(s, mag));
            }
            (vec![], outs)
        }
        K::Dot => {
            let (s, mag) = csum((0..n).map(|i| inp[0][i] * inp[1][i]));
            (vec![], vec![e(s, mag)])
        }
        K::Flow => {
            // pos_out = p cos + v sin ; vel = -p sin + v cos   (inp[0]=pos, inp[1]=vel)
            let (s, c) = (a.sin(), a.cos());
            let po = (0..n)
                .map(|i| {
                    e(
                        inp[0][i] * c + inp[1][i] * s,
                        (inp[0][i] * c).abs() + (inp[1][i] * s).abs(),
                    )
                })
                .collect();
            let vo = (0..n)
                .map(|i| {
                    e(
                        -inp[0][i] * s + inp[1][i] * c,
                        (inp[0][i] * s).abs() + (inp[1][i] * c).abs(),
                    )
                })
                .collect();
            (vec![po, vo], vec![])
        }
        K::GradFlow | K::GradFlowInplace => {
            // vel + eps*(pos+grad)  (inp: pos, grad, vel)
            let out = (0..n)
                .map(|i| {
                    let t = a * (inp[0][i] + inp[1][i]);
                    e(
                        inp[2][i] + t,
                        inp[2][i].abs() + a.abs() * (inp[0][i].abs() + inp[1][i].abs()),
                    )
                })
                .collect();
            (vec![out], vec![])
        }
    }
}

const GUARD: f64 = 12345.678;

/// run the util kernel with all slices at `off` inside over-allocated buffers
fn run_util(k: K, inp: &[Vec<f64>], a: f64, off: usize) -> Result<(Vec<Vec<f64>>, Vec<f64>), String> {
    let arch = pulp::Arch::new();
    let n = inp[0].len();
    let bufs: Vec<Vec<f64>> = inp
        .iter()
        .map(|v| {
            let mut b = vec![GUARD; off + n + 9];
            b[off..off + n].copy_from_slice(v);
            b
        })
        .collect();
    let sl = |j: usize| &bufs[j][off..off + n];
    let mut out1 = vec![GUARD; off + n + 9];
    let mut out2 = vec![GUARD; off + n + 9];
    let guard_ok = |b: &Vec<f64>| {
        b[..off].iter().all(|x| *x == GUARD) && b[off + n..].iter().all(|x| *x == GUARD)
    };
    let (vecs, scal): (Vec<Vec<f64>>, Vec<f64>) = match k {
        K::Axpy => {
            out1[off..off + n].copy_from_slice(sl(1));
            ku::axpy(arch, sl(0), &mut out1[off..off + n], a);
            (vec![out1[off..off + n].to_vec()], vec![])
        }
        K::AxpyOut => {
            ku::axpy_out(arch, sl(0), sl(1), a, &mut out1[off..off + n]);
            (vec![out1[off..off + n].to_vec()], vec![])
        }
        K::Multiply => {
            ku::multiply(arch, sl(0), sl(1), &mut out1[off..off + n]);
            (vec![out1[off..off + n].to_vec()], vec![])
        }
        K::MultiplyInplace => {
            out1[off..off + n].copy_from_slice(sl(0));
            ku::multiply_inplace(arch, &mut out1[off..off + n], sl(1));
            (vec![out1[off..off + n].to_vec()], vec![])
        }
        K::Prods2 => {
            let r = ku::scalar_prods2(arch, sl(0), sl(1), sl(2), sl(3));
            (vec![], vec![r.0, r.1])
        }
        K::Prods3 => {
            let r = ku::scalar_prods3(arch, sl(0), sl(1), sl(2), sl(3), sl(4));
            (vec![], vec![r.0, r.1])
        }
        K::Dot => (vec![], vec![ku::vector_dot(arch, sl(0), sl(1))]),
        K::Flow => {
            out2[off..off + n].copy_from_slice(sl(1));
            ku::std_norm_flow(arch, sl(0), &mut out1[off..off + n], &mut out2[off..off + n], a);
            (
                vec![out1[off..off + n].to_vec(), out2[off..off + n].to_vec()],
                vec![],
            )
        }
        K::GradFlow => {
            ku::std_norm_grad_flow(arch, sl(0), sl(1), sl(2), &mut out1[off..off + n], a);
            (vec![out1[off..off + n].to_vec()], vec![])
        }
        K::GradFlowInplace => {
            out1[off..off + n].copy_from_slice(sl(2));
            ku::std_norm_grad_flow_inplace(arch, sl(0), sl(1), &mut out1[off..off + n], a);
            (vec![out1[off..off + n].to_vec()], vec![])
        }
    };
    if !guard_ok(&out1) || !guard_ok(&out2) {
        return Err("write outside the output slice".into());
    }
    for (j, b) in bufs.iter().enumerate() {
        if b[off..off + n]
            .iter()
            .zip(&inp[j])
            .any(|(x, y)| x.to_bits() != y.to_bits())
            || !guard_ok(b)
        {
            return Err(format!("input operand {j} was modified"));
        }
    }
    Ok((vecs, scal))
}

fn col(v: &[f64]) -> Col<f64> {
    Col::from_fn(v.len(), |i| v[i])
}
fn uncol(c: &Col<f64>) -> Vec<f64> {
    (0..c.nrows()).map(|i| c[i]).collect()
}

/// the same kernels through the public `Math` trait of `CpuMath`
fn run_math(k: K, inp: &[Vec<f64>], a: f64) -> (Vec<Vec<f64>>, Vec<f64>) {
    let n = inp[0].len();
    let mut m = CpuMath::new(Dens::new(Target::std_normal(n)));
    let c: Vec<Col<f64>> = inp.iter().map(|v| col(v)).collect();
    match k {
        K::Axpy => {
            let mut y = c[1].clone();
            m.axpy(&c[0], &mut y, a);
            (vec![uncol(&y)], vec![])
        }
        K::AxpyOut => {
            let mut o = m.new_array();
            m.axpy_out(&c[0], &c[1], a, &mut o);
            (vec![uncol(&o)], vec![])
        }
        K::Multiply => {
            let mut o = m.new_array();
            m.array_mult(&c[0], &c[1], &mut o);
            (vec![uncol(&o)], vec![])
        }
        K::MultiplyInplace => {
            let mut o = c[0].clone();
            m.array_mult_inplace(&mut o, &c[1]);
            (vec![uncol(&o)], vec![])
        }
        K::Prods2 => {
            let r = m.scalar_prods2(&c[0], &c[1], &c[2], &c[3]);
            (vec![], vec![r.0, r.1])
        }
        K::Prods3 => {
            let r = m.scalar_prods3(&c[0], &c[1], &c[2], &c[3], &c[4]);
            (vec![], vec![r.0, r.1])
        }
        K::Dot => (vec![], vec![m.array_vector_dot(&c[0], &c[1])]),
        K::Flow => {
            let mut po = m.new_array();
            let mut v = c[1].clone();
            m.std_norm_flow(&c[0], &mut po, &mut v, a);
            (vec![uncol(&po), uncol(&v)], vec![])
        }
        K::GradFlow => {
            let mut o = m.new_array();
            m.std_norm_grad_flow(&c[0], &c[1], &c[2], &mut o, a);
            (vec![uncol(&o)], vec![])
        }
        K::GradFlowInplace => {
            let mut v = c[2].clone();
            m.std_norm_grad_flow_inplace(&c[0], &c[1], &mut v, a);
            (vec![uncol(&v)], vec![])
        }
    }
}

fn compare(
    k: K,
    inp: &[Vec<f64>],
    a: f64,
    got: &(Vec<Vec<f64>>, Vec<f64>),
    exact_elementwise: bool,
) -> Option<String> {
    let n = inp[0].len();
    let (ev, es) = reference(k, inp, a);
    if ev.len() != got.0.len() || es.len() != got.1.len() {
        return Some("output arity".into());
    }
    for (oi, (e, g)) in ev.iter().zip(&got.0).enumerate() {
        if e.len() != g.len() {
            return Some("output length".into());
        }
        for i in 0..e.len() {
            // element-wise kernels: one fused or unfused multiply-add -> 1-2 ulp of the terms
            let ex = exact_elementwise && matches!(k, K::Multiply | K::MultiplyInplace);
            if !agree(g[i], e[i], 1, ex) {
                return Some(format!(
                    "output {oi} element {i}: got {:e} expected {:e}",
                    g[i], e[i].v
                ));
            }
        }
    }
    for (oi, (e, g)) in es.iter().zip(&got.1).enumerate() {
        if !agree(*g, *e, n, false) {
            return Some(format!("scalar {oi}: got {:e} expected {:e}", g, e.v));
        }
    }
    None
}

/// non-SIMD helpers of CpuMath checked through the public trait
fn check_helpers(n: usize, p: &mut Partial) {
    let mut m = CpuMath::new(Dens::new(Target::std_normal(n)));
    let x = base(n, 0);
    let y = base(n, 1);
    let mut viol = |key: String, detail: String, p: &mut Partial| {
        p.violation(key, detail, json!({"n": n}));
    };
    // all_finite / all_finite_and_nonzero with a special at every index
    for i in 0..n.max(1) {
        for (si, s) in SPECIALS.iter().chain([0.0f64].iter()).enumerate() {
            let mut v = x.clone();
            // make base strictly non-zero
            v.iter_mut().for_each(|t| {
                if *t == 0.0 {
                    *t = 0.5
                }
            });
            if n > 0 {
                v[i] = *s;
            }
            let c = col(&v);
            let f = m.array_all_finite(&c);
            let fnz = m.array_all_finite_and_nonzero(&c);
            let ef = v.iter().all(|t| t.is_finite());
            let efnz = v.iter().all(|t| t.is_finite() && *t != 0.0);
            p.evaluations += 2;
            if f != ef {
                viol(
                    format!("all_finite n={n} i={i} special={si}"),
                    format!("got {f} expected {ef}"),
                    p,
                );
            }
            if fnz != efnz {
                viol(
                    format!("all_finite_and_nonzero n={n} i={i} special={si}"),
                    format!("got {fnz} expected {efnz}"),
                    p,
                );
            }
        }
    }
    // finiteness tests on vectors of large finite values (any reduction over the entries overflows)
    if n > 0 {
        for (name, v) in [("max", vec![f64::MAX; n]), ("negmax", vec![-f64::MAX; n]), ("1e308", vec![1e308; n]), ("alt", (0..n).map(|i| if i % 2 == 0 { f64::MAX } else { -f64::MAX }).collect::<Vec<f64>>())] {
            let fin = m.array_all_finite(&col(&v));
            let fnz = m.array_all_finite_and_nonzero(&col(&v));
            p.evaluations += 2;
            if !fin || !fnz {
                viol(format!("all_finite-large-{name} n={n}"), format!("all_finite {fin}, all_finite_and_nonzero {fnz}: every entry is finite and non-zero"), p);
            }
        }
    }
    // normalize, sum_ln, sq_norm_sum, recip, fill, copy, box_array round trip
    if n > 0 {
        let mut c = col(&x);
        m.array_normalize(&mut c);
        let nrm = x.iter().map(|t| t * t).sum::<f64>().sqrt();
        let got = uncol(&c);
        p.evaluations += 1;
        for i in 0..n {
            if !mc_core::rel_close(got[i], x[i] / nrm, 1e-13, 1e-300) {
                viol(
                    format!("normalize n={n} i={i}"),
                    format!("got {} expected {}", got[i], x[i] / nrm),
                    p,
                );
                break;
            }
        }
        let nn: f64 = got.iter().map(|t| t * t).sum::<f64>().sqrt();
        if (nn - 1.0).abs() > 1e-13 {
            viol(format!("normalize-norm n={n}"), format!("norm {nn}"), p);
        }
    }
    let pos: Vec<f64> = x.iter().map(|t| t.abs() + 0.1).collect();
    let sl = m.array_sum_ln(&col(&pos));
    let (esl, _) = csum(pos.iter().map(|t| t.ln()));
    p.evaluations += 1;
    if !mc_core::rel_close(sl, esl, 1e-12, 1e-12) {
        viol(format!("sum_ln n={n}"), format!("got {sl} expected {esl}"), p);
    }
    // sum_ln over the whole exponent range (the product of the entries over- or underflows long
    // before the sum of logarithms does) and with one special entry at every index
    if n > 0 {
        for (name, v) in [("tiny", vec![1e-300; n]), ("huge", vec![1e300; n]), ("1e-7", vec![1e-7; n]), ("mixed", (0..n).map(|i| if i % 2 == 0 { 1e-200 } else { 1e150 }).collect::<Vec<f64>>())] {
            let got = m.array_sum_ln(&col(&v));
            let (want, _) = csum(v.iter().map(|t| t.ln()));
            p.evaluations += 1;
            if !mc_core::rel_close(got, want, 1e-12, 1e-12) {
                viol(format!("sum_ln-{name} n={n}"), format!("got {got} expected {want}"), p);
            }
        }
        for i in 0..n {
            for sv in [0.0, f64::INFINITY, f64::NAN, -1.0, 5e-324] {
                let mut v = pos.clone();
                v[i] = sv;
                let got = m.array_sum_ln(&col(&v));
                let want: f64 = v.iter().map(|t| t.ln()).sum();
                p.evaluations += 1;
                let same = (got.is_nan() && want.is_nan()) || got == want || mc_core::rel_close(got, want, 1e-12, 1e-12);
                if !same {
                    viol(format!("sum_ln-special n={n} i={i}"), format!("value {sv}: got {got} expected {want}"), p);
                    break;
                }
            }
        }
    }
    let sq = m.sq_norm_sum(&col(&x), &col(&y));
    let (esq, _) = csum((0..n).map(|i| (x[i] + y[i]) * (x[i] + y[i])));
    p.evaluations += 1;
    if !mc_core::rel_close(sq, esq, 1e-12, 1e-300) {
        viol(format!("sq_norm_sum n={n}"), format!("got {sq} expected {esq}"), p);
    }
    // sq_norm_sum probes: near-cancelling operands (y ~ -x: the regime of a well adapted
    // transformation), large magnitudes whose squares are still finite, one infinity / NaN at
    // every index - the plain formula sum (x_i + y_i)^2 has non-negative terms only
    if n > 0 {
        let next_down = |v: f64| if v == 0.0 { -f64::MIN_POSITIVE } else { f64::from_bits(if v > 0.0 { v.to_bits() - 1 } else { v.to_bits() + 1 }) };
        let probes: Vec<(&str, Vec<f64>, Vec<f64>)> = vec![
            ("cancel", x.clone(), x.iter().map(|v| -next_down(*v)).collect()),
            ("cancel-1e-9", x.clone(), x.iter().map(|v| -v * (1.0 + 1e-9)).collect()),
            ("large", (0..n).map(|i| if i % 2 == 0 { 1e160 } else { -3e159 }).collect(), (0..n).map(|i| if i % 2 == 0 { -1e160 + 1e150 } else { 3e159 + 2e149 }).collect()),
        ];
        for (name, xs, ys) in probes {
            let got = m.sq_norm_sum(&col(&xs), &col(&ys));
            let (want, _) = csum((0..n).map(|i| (xs[i] + ys[i]) * (xs[i] + ys[i])));
            p.evaluations += 1;
            if !(mc_core::rel_close(got, want, 1e-12, 0.0) || got == want) {
                viol(format!("sq_norm_sum-{name} n={n}"), format!("got {got:e} expected {want:e}"), p);
            }
        }
        for i in 0..n {
            for (name, sv, other) in [("inf", f64::INFINITY, 0.5), ("neginf", f64::NEG_INFINITY, 0.5), ("nan", f64::NAN, 0.5)] {
                let mut xs = x.clone();
                let mut ys = y.clone();
                xs[i] = sv;
                ys[i] = other;
                let got = m.sq_norm_sum(&col(&xs), &col(&ys));
                let want: f64 = (0..n).map(|j| (xs[j] + ys[j]) * (xs[j] + ys[j])).sum();
                p.evaluations += 1;
                let same = (got.is_nan() && want.is_nan()) || got == want;
                if !same {
                    viol(format!("sq_norm_sum-{name} n={n} i={i}"), format!("got {got} expected {want}"), p);
                    break;
                }
            }
        }
    }
    // copy_into and the per-element estimator helpers: every element updated exactly once by the
    // element-wise formula; a special value at index i changes element i only
    {
        let mut dst = col(&y);
        m.copy_into(&col(&x), &mut dst);
        p.evaluations += 1;
        if !mc_core::slice_bits_eq(&uncol(&dst), &x) {
            viol(format!("copy_into n={n}"), "destination differs from the source".into(), p);
        }
        let specials = [f64::NAN, f64::INFINITY, 0.0, -0.0, 5e-324, 1e300, -1e300];
        let probe_at = |i: Option<usize>, sv: f64, base_v: &Vec<f64>| -> Vec<f64> {
            let mut v = base_v.clone();
            if let Some(i) = i {
                v[i] = sv;
            }
            v
        };
        let mut positions: Vec<(Option<usize>, f64)> = vec![(None, 0.0)];
        for i in 0..n {
            for sv in specials {
                positions.push((Some(i), sv));
            }
        }
        let var_a: Vec<f64> = x.iter().map(|t| t * t + 0.3).collect();
        let var_b: Vec<f64> = y.iter().map(|t| t * t + 0.7).collect();
        for (i, sv) in positions {
            // running mean / variance
            let val = probe_at(i, sv, &x);
            let mut mean = col(&y);
            let mut var = col(&var_a);
            m.array_update_variance(&mut mean, &mut var, &col(&val), 0.25);
            p.evaluations += 1;
            let (gm, gv) = (uncol(&mean), uncol(&var));
            for j in 0..n {
                let diff = val[j] - y[j];
                let (em, ev) = (y[j] + diff * 0.25, var_a[j] + diff * diff);
                if !(mc_core::bits_eq(gm[j], em) && mc_core::bits_eq(gv[j], ev)) {
                    viol(format!("update_variance n={n} probe={i:?}"), format!("element {j}: mean {} var {} expected {em} {ev}", gm[j], gv[j]), p);
                    break;
                }
            }
            // draw-variance -> scale, draw/grad variance -> scale, gradient -> scale
            let dv = probe_at(i, sv, &var_a);
            let gvv = probe_at(i.map(|i| (i + n / 2) % n.max(1)), sv, &var_b);
            for fill in [None, Some(2.0)] {
                let clamp = (1e-3, 1e3);
                let prev_std: Vec<f64> = (0..n).map(|j| 0.5 + j as f64).collect();
                let prev_inv: Vec<f64> = prev_std.iter().map(|t| 1.0 / t).collect();
                let (mut is, mut st) = (col(&prev_inv), col(&prev_std));
                m.array_update_var_inv_std_draw(&mut is, &mut st, &col(&dv), 0.5, fill, clamp);
                let (mut is2, mut st2) = (col(&prev_inv), col(&prev_std));
                m.array_update_var_inv_std_draw_grad(&mut is2, &mut st2, &col(&dv), &col(&gvv), fill, clamp);
                p.evaluations += 2;
                let (gis, gst, gis2, gst2) = (uncol(&is), uncol(&st), uncol(&is2), uncol(&st2));
                for j in 0..n {
                    let one = |val: f64, invalid: bool| -> (f64, f64) {
                        if invalid {
                            match fill {
                                Some(f) => (f.sqrt(), f.recip().sqrt()),
                                None => (prev_std[j], prev_inv[j]),
                            }
                        } else {
                            let v = val.clamp(clamp.0, clamp.1);
                            (v.sqrt(), v.recip().sqrt())
                        }
                    };
                    let a = dv[j] * 0.5;
                    let (es, ei) = one(a, !a.is_finite() || a == 0.0);
                    let b = (dv[j] / gvv[j]).sqrt();
                    let (es2, ei2) = one(b, !b.is_finite() || b == 0.0);
                    if !(mc_core::bits_eq(gst[j], es) && mc_core::bits_eq(gis[j], ei)) {
                        viol(format!("update_var_inv_std_draw n={n} probe={i:?} fill={fill:?}"), format!("element {j}: std {} inv {} expected {es} {ei}", gst[j], gis[j]), p);
                        break;
                    }
                    if !(mc_core::bits_eq(gst2[j], es2) && mc_core::bits_eq(gis2[j], ei2)) {
                        viol(format!("update_var_inv_std_draw_grad n={n} probe={i:?} fill={fill:?}"), format!("element {j}: std {} inv {} expected {es2} {ei2}", gst2[j], gis2[j]), p);
                        break;
                    }
                }
            }
            let gr = probe_at(i, sv, &y);
            let (mut is3, mut st3) = (col(&vec![9.0; n]), col(&vec![9.0; n]));
            m.array_update_var_inv_std_grad(&mut is3, &mut st3, &col(&gr), 2.0, (1e-3, 1e3));
            p.evaluations += 1;
            let (gis3, gst3) = (uncol(&is3), uncol(&st3));
            for j in 0..n {
                let v = gr[j].abs().clamp(1e-3, 1e3).recip();
                let v = if v.is_finite() { v } else { 2.0 };
                if !(mc_core::bits_eq(gst3[j], v.sqrt()) && mc_core::bits_eq(gis3[j], v.recip().sqrt())) {
                    viol(format!("update_var_inv_std_grad n={n} probe={i:?}"), format!("element {j}: std {} inv {} expected {} {}", gst3[j], gis3[j], v.sqrt(), v.recip().sqrt()), p);
                    break;
                }
            }
        }
    }
    let mut r = m.new_array();
    m.array_recip(&col(&pos), &mut r);
    let r = uncol(&r);
    p.evaluations += 1;
    for i in 0..n {
        if r[i] != 1.0 / pos[i] {
            viol(format!("recip n={n} i={i}"), "mismatch".into(), p);
            break;
        }
    }
    let mut f = m.new_array();
    m.fill_array(&mut f, 2.5);
    if uncol(&f).iter().any(|t| *t != 2.5) || f.nrows() != n {
        viol(format!("fill n={n}"), "mismatch".into(), p);
    }
    let b = m.box_array(&col(&x));
    if !mc_core::slice_bits_eq(&b, &x) {
        viol(format!("box_array n={n}"), "mismatch".into(), p);
    }
    let mut dst = m.new_array();
    m.read_from_slice(&mut dst, &x);
    let mut back = vec![0.0; n];
    m.write_to_slice(&dst, &mut back);
    if !mc_core::slice_bits_eq(&back, &x) {
        viol(format!("slice round trip n={n}"), "mismatch".into(), p);
    }
    p.evaluations += 3;

    // low-rank application, ranks 0..=min(n,4): dest = rhs + U (diag(vals)-I) U^T rhs
    for r in 0..=n.min(4) {
        let cols: Vec<Vec<f64>> = (0..r).map(|j| base(n, 3 + j)).collect();
        let vals: Vec<f64> = (0..r).map(|j| 0.25 + 1.5 * j as f64).collect();
        let vecs: Mat<f64> = m.new_eig_vectors(cols.iter().map(|c| c.as_slice()));
        let valsc = m.new_eig_values(&vals);
        // probes: dense + one-hot at every index
        let mut probes: Vec<Vec<f64>> = vec![y.clone()];
        for i in 0..n {
            let mut v = vec![0.0; n];
            v[i] = 3.0 + i as f64;
            probes.push(v);
        }
        for rhs in probes {
            let mut exp = rhs.clone();
            let mut mags = rhs.iter().map(|t| t.abs()).collect::<Vec<_>>();
            for j in 0..r {
                let (proj, pm) = csum((0..n).map(|i| cols[j][i] * rhs[i]));
                let coef = (vals[j] - 1.0) * proj;
                for i in 0..n {
                    exp[i] += cols[j][i] * coef;
                    mags[i] += (cols[j][i] * (vals[j] - 1.0)).abs() * pm;
                }
            }
            let mut dest = m.new_array();
            m.apply_lowrank_transform(&vecs, &valsc, &col(&rhs), &mut dest);
            let mut inpl = col(&rhs);
            m.apply_lowrank_transform_inplace(&vecs, &valsc, &mut inpl);
            p.evaluations += 2;
            for (which, got) in [("out", uncol(&dest)), ("inplace", uncol(&inpl))] {
                for i in 0..n {
                    let tol = (n as f64 + 8.0) * 8.0 * f64::EPSILON * mags[i] + 1e-300;
                    if (got[i] - exp[i]).abs() > tol || got[i].is_nan() {
                        viol(
                            format!("lowrank-{which} n={n} rank={r} i={i}"),
                            format!("got {} expected {}", got[i], exp[i]),
                            p,
                        );
                        break;
                    }
                }
            }
        }
        p.class(format!("lowrank:rank={r}"));
    }

    // the three flow kernels called REPEATEDLY on one backend object with recurring angles of both
    // signs (angles beyond pi included: sin < 0): every call is the scalar formula, whatever the
    // backend did before
    if n >= 1 && (n <= 4 || n == 17 || n == 64) {
        let pos = base(n, 1);
        let vel = base(n, 3);
        let angles = [4.0, 4.0, -4.0, 4.0, 5.5, -5.5, 5.5, 100.0, 100.0, 0.5, 0.5, -0.5, 3.5, -3.5, 3.5, 0.0, 3.5, std::f64::consts::PI, -std::f64::consts::PI, 6.0, 6.0];
        for (call, a) in angles.into_iter().enumerate() {
            let mut po = m.new_array();
            let mut v = col(&vel);
            m.std_norm_flow(&col(&pos), &mut po, &mut v, a);
            let (sn, cs) = (a.sin(), a.cos());
            p.evaluations += 1;
            let bad = (0..n).find(|&i| {
                let want_p = pos[i] * cs + vel[i] * sn;
                let want_v = -pos[i] * sn + vel[i] * cs;
                let tol = 64.0 * f64::EPSILON * (pos[i].abs() + vel[i].abs());
                (po[i] - want_p).abs() > tol || (v[i] - want_v).abs() > tol
            });
            if let Some(i) = bad {
                viol(format!("std_norm_flow repeated on one backend n={n} call={call} angle={a}"), format!("element {i}: got ({}, {}), scalar formula gives ({}, {})", po[i], v[i], pos[i] * cs + vel[i] * sn, -pos[i] * sn + vel[i] * cs), p);
                break;
            }
            let mut o = m.new_array();
            m.std_norm_grad_flow(&col(&pos), &col(&vel), &col(&pos), &mut o, a);
            let mut vi = col(&vel);
            m.std_norm_grad_flow_inplace(&col(&pos), &col(&pos), &mut vi, a);
            let mut o2 = m.new_array();
            m.std_norm_grad_flow(&col(&pos), &col(&vel), &col(&pos), &mut o2, a);
            if !mc_core::slice_bits_eq(&uncol(&o), &uncol(&o2)) {
                viol(format!("std_norm_grad_flow repeated on one backend n={n} call={call} angle={a}"), "two identical calls give different results".into(), p);
                break;
            }
        }
        p.class("flow-history".to_string());
    }

    // ESH update vs closed form (needs n >= 2)
    if n >= 2 {
        let g = base(n, 2);
        let mut mom = base(n, 5);
        let nm = mom.iter().map(|t| t * t).sum::<f64>().sqrt();
        mom.iter_mut().for_each(|t| *t /= nm);
        esh_sphere_probes(&mut m, n, &g, p, "");
        for step in [1e-3, 0.1, 0.9, -0.3] {
            let (e_after, e_dke) = crate::common::refmodel::esh_reference(&g, &mom, step);
            let mut mc = col(&mom);
            let dke = m.esh_momentum_update(&col(&g), &mut mc, step);
            let got = uncol(&mc);
            p.evaluations += 1;
            let bad = (0..n).any(|i| !mc_core::rel_close(got[i], e_after[i], 1e-11, 1e-14))
                || !mc_core::rel_close(dke, e_dke, 1e-10, 1e-12);
            if bad {
                viol(
                    format!("esh n={n} step={step}"),
                    format!("dke got {dke} expected {e_dke}"),
                    p,
                );
            }
        }
    }
}

/// ESH momentum update on the sphere: momenta (anti)parallel to the gradient and tiny rotations of
/// them x small to saturating update arguments; the result is a unit vector and (where the update
/// is well conditioned) the closed-form ESH update with its kinetic-energy change.
pub fn esh_sphere_probes<MM: Math<Vector = Col<f64>>>(m: &mut MM, n: usize, g: &[f64], p: &mut Partial, prefix: &str) {
    if n < 2 {
        return;
    }
        // momenta (anti)parallel to the gradient and tiny rotations of them, small to saturating
        // update arguments: the result stays on the unit sphere and equals the closed form
        let gn = g.iter().map(|t| t * t).sum::<f64>().sqrt();
        let ghat: Vec<f64> = g.iter().map(|t| t / gn).collect();
        // a unit vector orthogonal to ghat
        let mut orth: Vec<f64> = (0..n).map(|i| if i == 0 { ghat[1] } else if i == 1 { -ghat[0] } else { 0.0 }).collect();
        let on = orth.iter().map(|t| t * t).sum::<f64>().sqrt();
        if on > 1e-6 {
            orth.iter_mut().for_each(|t| *t /= on);
            for theta in [0.0, 1e-9, 1e-7, 1e-4, 1e-2, 1.0, std::f64::consts::PI - 1e-4, std::f64::consts::PI] {
                // theta measured from -ghat
                let mom: Vec<f64> = (0..n).map(|i| -ghat[i] * f64::cos(theta) + orth[i] * f64::sin(theta)).collect();
                for delta in [1e-3, 0.5, 3.0, 8.0, 20.0, 30.0] {
                    let step = delta * (n as f64 - 1.0) / gn;
                    let (e_after, e_dke) = crate::common::refmodel::esh_reference(&g, &mom, step);
                    let mut mc = col(&mom);
                    let dke = m.esh_momentum_update(&col(&g), &mut mc, step);
                    let got = uncol(&mc);
                    p.evaluations += 1;
                    let nrm = got.iter().map(|t| t * t).sum::<f64>().sqrt();
                    // direction and energy change are only comparable where the update is well
                    // conditioned: for a momentum within ~1e-3 rad of -g/|g| and a saturating
                    // argument the result hinges on the rounding of 1 + p.g/|g| in either code
                    let alpha = -f64::cos(theta);
                    let cond = 1.0 + alpha + (1.0 - alpha) * (-2.0 * delta).exp();
                    let comparable = cond > 1e-5;
                    if !comparable {
                        p.count("esh_probes_ill_conditioned_(unit_norm_checked_only)", 1);
                    }
                    let bad = !((nrm - 1.0).abs() <= 1e-12)
                        || (comparable && ((0..n).any(|i| !((got[i] - e_after[i]).abs() <= 1e-8)) || !mc_core::rel_close(dke, e_dke, 1e-8, 1e-9)));
                    if bad {
                        p.violation(
                            format!("{prefix}esh-antiparallel n={n} theta={theta:e} delta={delta}"),
                            format!("|p| = {nrm}, dke got {dke} expected {e_dke}, p[0..2] = {:?} expected {:?}", &got[..2], &e_after[..2]),
                            json!({"n": n, "theta": theta, "delta": delta}),
                        );
                    }
                }
            }
        }
}

pub fn run(tier: Tier, _replay: Option<String>) -> i32 {
    let max_n: usize = 130;
    let offsets: Vec<usize> = tier.pick(vec![0, 1, 3], (0..8).collect());
    let mut report = Report::new(
        "C17",
        tier,
        "exploration",
        "every length n in 0..=130 x 10 SIMD kernels (util slices at buffer offsets + CpuMath trait methods) x {dense pattern; one-hot probe at every index of every operand; every special value (NaN, +-inf, -0, subnormals, 1e+-300) at every index of every operand} x 7 scalars (dense) ; plus all_finite/normalize/sum_ln/recip/low-rank (ranks 0..=4)/ESH helpers per length. A case is distinct+nontrivial per (kernel, n mod 32 class.., probe kind); counted as distinct (kernel,length,probe-kind) triples.",
    );
    report.bounds = json!({"max_len": max_n, "offsets": offsets, "scalars": SCALARS.len(), "specials": SPECIALS.len()});
    report.assume("floating-point agreement up to (n+8)*4 ulp of the sum of absolute terms for reductions and fused/unfused multiply-add for element-wise kernels; exact for pure products");
    report.assume("the SIMD level exercised is the one pulp::Arch::new() selects on this machine");

    let lens: Vec<usize> = (0..=max_n).collect();
    mc_core::par_for_each(&lens, |_, &n| {
        let mut p = Partial::new();
        for &k in KERNELS.iter() {
            let ni = n_inputs(k);
            let scalars: Vec<f64> = if uses_scalar(k) {
                SCALARS.to_vec()
            } else {
                vec![1.0]
            };
            // (i) dense
            let dense: Vec<Vec<f64>> = (0..ni).map(|w| base(n, w)).collect();
            let mut cases: Vec<(String, Vec<Vec<f64>>, Vec<f64>)> =
                vec![("dense".into(), dense.clone(), scalars.clone())];
            // (ii) one-hot and (iii) specials at every index of every operand
            for op in 0..ni {
                for i in 0..n {
                    let mut oh: Vec<Vec<f64>> = (0..ni)
                        .map(|w| {
                            // other operands: ones so the probed lane is observable
                            if w == op { vec![0.0; n] } else { vec![1.0; n] }
                        })
                        .collect();
                    oh[op][i] = 3.0 + i as f64;
                    cases.push((format!("onehot:op{op}"), oh, vec![scalars[scalars.len().min(2) - 1]]));
                    for (si, s) in SPECIALS.iter().enumerate() {
                        let mut sp = dense.clone();
                        sp[op][i] = *s;
                        // (a zero scalar must still propagate NaN / infinity: 0 * inf = NaN)
                        let sc = if uses_scalar(k) { vec![0.5, 0.0, -0.0] } else { vec![scalars[scalars.len() - 1].min(0.5)] };
                        cases.push((format!("special{si}:op{op}"), sp, sc));
                    }
                }
            }
            for (kind, inp, scal) in cases {
                for &a in &scal {
                    for &off in &offsets {
                        p.evaluations += 1;
                        match run_util(k, &inp, a, off) {
                            Err(e) => p.violation(
                                format!("{k:?}/util n={n} {kind} off={off}"),
                                e,
                                json!({"kernel": format!("{k:?}"), "n": n, "kind": kind, "a": a, "offset": off}),
                            ),
                            Ok(got) => {
                                if let Some(d) = compare(k, &inp, a, &got, true) {
                                    p.violation(
                                        format!("{k:?}/util n={n} {kind}"),
                                        d,
                                        json!({"kernel": format!("{k:?}"), "n": n, "kind": kind, "a": a, "offset": off, "inputs": inp}),
                                    );
                                }
                            }
                        }
                    }
                    p.evaluations += 1;
                    let got = run_math(k, &inp, a);
                    if let Some(d) = compare(k, &inp, a, &got, true) {
                        p.violation(
                            format!("{k:?}/math n={n} {kind}"),
                            d,
                            json!({"kernel": format!("{k:?}"), "n": n, "kind": kind, "a": a, "inputs": inp}),
                        );
                    }
                }
                p.class(format!("{k:?}:{n}:{}", kind.split(':').next().unwrap_or("")));
            }
            if n == 37 {
                p.sample(json!({"kernel": format!("{k:?}"), "n": n, "probe": "special NaN at index 36 of operand 0, scalar 0.5, util offset 3 and CpuMath"}));
            }
        }
        check_helpers(n, &mut p);
        report.merge(p);
    });
    report.finish()
}
