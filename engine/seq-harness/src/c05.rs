//! C05 — density faults become divergences or errors, never panics or bad draws.
//!
//! Fault enumeration: for every preset, every evaluation index k of a complete run
//! (set_position + warmup + sampling) x every fault kind; pairs of faults inside a sliding window.
//! The phase an evaluation belongs to (initialisation, trajectory leapfrog, step-size search inside
//! adapt) is derived from the run itself: the density logs every evaluation, `Progress.num_steps`
//! says how many of a draw's evaluations were trajectory leapfrogs.

use mc_core::{Partial, Report, Tier};
use nuts_rs::KineticEnergyKind;
use serde_json::json;

use crate::common::models::{Dens, FaultKind, Target};
use crate::common::runner::*;
use crate::common::stats::*;
use crate::with_settings;

#[derive(Clone, Debug)]
struct Cfg {
    preset: Preset,
    kinetic: KineticEnergyKind,
    num_tune: u64,
    dynamic: bool,
    /// doublings performed after the U-turn criterion fired (non-default tree option)
    extra_doublings: u64,
    /// forced doublings (non-default tree option) and the energy-error limit
    mindepth: u64,
    max_energy_error: f64,
    name: String,
}

fn tweaks(c: &Cfg) -> Tweaks {
    let mut t = Tweaks::default();
    t.num_tune = c.num_tune;
    t.num_draws = 4;
    t.maxdepth = Some(4);
    if c.extra_doublings > 0 {
        t.extra_doublings = Some(c.extra_doublings);
    }
    if c.mindepth > 0 {
        t.mindepth = Some(c.mindepth);
    }
    if c.max_energy_error != 1000.0 {
        t.max_energy_error = Some(c.max_energy_error);
    }
    if c.preset.is_nuts() {
        t.kinetic = Some(c.kinetic);
    }
    t.store_unconstrained = true;
    t.store_gradient = true;
    t.store_divergences = true;
    t.store_mass_matrix = true;
    t.early_switch_freq = Some(3);
    t.switch_freq = Some(4);
    t.dynamic_step_size = Some(c.dynamic);
    t.mclmc_length = Some(1.5);
    t
}

fn target() -> Target {
    Target::DiagNormal {
        mu: vec![0.3, -1.0],
        sigma: vec![0.7, 2.0],
    }
}

const START: [f64; 2] = [0.1, 0.2];

struct Run {
    /// failed set_position attempts before the one that succeeded (start shifted by 0.01 each)
    init_retries: usize,
    res: RunResult,
    evals: Vec<(u64, Vec<f64>, Option<f64>, Vec<f64>)>,
    fired: Vec<u64>,
}

fn run(c: &Cfg, faults: &[(u64, FaultKind)]) -> Run {
    let t = tweaks(c);
    let n = (c.num_tune + 4) as usize;
    let dens = Dens::with_faults(target(), faults.to_vec()).recording();
    dens.log.borrow_mut().eval_budget = Some(100_000);
    let log = dens.log.clone();
    // (a failed set_position is retried once on the same chain, as the sampler's initialisation loop does)
    let res = with_settings!(c.preset, &t, |s| run_chain_retry(&s, dens, 7, &START, n, 1));
    let l = log.borrow();
    Run {
        init_retries: crate::common::runner::LAST_INIT_RETRIES.with(|c| c.get()),
        res,
        evals: l.evals.clone(),
        fired: l.fired.clone(),
    }
}

fn judge(c: &Cfg, faults: &[(u64, FaultKind)], r: &Run, p: &mut Partial, tag: &str) {
    let key = format!("{}/{tag}", c.name);
    let replay = json!({"config": format!("{c:?}"), "faults": faults.iter().map(|(k, f)| json!([k, f.name()])).collect::<Vec<_>>()});
    let mut viol = |oracle: &str, detail: String, p: &mut Partial| {
        p.violation(format!("C05/{oracle}/{key}"), detail, replay.clone());
    };
    let kind_at = |k: u64| faults.iter().find(|(i, _)| *i == k).map(|(_, f)| *f);
    let first_unrec = r
        .fired
        .iter()
        .copied()
        .find(|k| kind_at(*k) == Some(FaultKind::Unrecoverable));
    let n_init = r.res.n_eval_after_init;

    // ---- panics ----
    match &r.res.end {
        RunEnd::NewChainPanicked(m) | RunEnd::SetPositionPanicked(m) | RunEnd::DrawPanicked(_, m) => {
            if m.contains("HARNESS: evaluation budget") {
                viol("run-does-not-terminate", format!("{:?}", r.res.end), p);
            } else {
                viol("panic", format!("{:?}", r.res.end).chars().take(300).collect(), p);
            }
            return;
        }
        _ => {}
    }

    // ---- unrecoverable: the call that performed the evaluation returns Err ----
    if let Some(k) = first_unrec {
        let ok = match &r.res.end {
            RunEnd::SetPositionErr(_) => k < n_init || r.res.draws.is_empty() && (k as usize) < r.evals.len(),
            RunEnd::DrawErr(d, _) => {
                let lo = if *d == 0 { n_init } else { r.res.draws[*d - 1].n_eval_after };
                k >= lo
            }
            _ => false,
        };
        if !ok {
            viol(
                "unrecoverable-error-not-returned-by-the-call",
                format!("unrecoverable error at evaluation {k}, run ended with {:?}", short_end(&r.res.end)),
                p,
            );
        }
        p.class(format!("{}:unrecoverable:{}", c.name, if k < n_init { "init" } else { "draw" }));
        return;
    }

    // ---- errors without an unrecoverable fault ----
    match &r.res.end {
        RunEnd::Completed => {}
        RunEnd::SetPositionErr(m) => {
            // a fault at the evaluation of the initial point itself makes it a bad initial point
            let fired_in_init = r.fired.iter().any(|k| *k < r.evals.len() as u64);
            if !fired_in_init {
                viol("set-position-failed-without-fault", m.clone(), p);
            }
            p.class(format!("{}:bad-initial-point", c.name));
            return;
        }
        RunEnd::DrawErr(d, m) => {
            // which evaluation made the draw fail? the last one performed
            let last = r.evals.last().map(|e| e.0).unwrap_or(0);
            let lo = if *d == 0 { n_init } else { r.res.draws[*d - 1].n_eval_after };
            let kinds: Vec<&str> = r.fired.iter().filter(|k| **k >= lo).filter_map(|k| kind_at(*k)).map(|f| f.name()).collect();
            let oracle = if kinds.is_empty() {
                // no fault fired in this draw at all: an earlier fault left something behind
                "draw-returns-err-although-no-fault-fired-in-it"
            } else if m.contains("Could not initialize state") {
                // the evaluation of the current position that re-initialises the step size after
                // the first transformation change inside adapt()
                "fault-at-step-size-reinit-in-adapt-makes-draw-return-err"
            } else {
                "recoverable-fault-makes-draw-return-err"
            };
            viol(
                oracle,
                format!("draw {d} returned Err ({}) after faults {kinds:?} fired in it; last evaluation {last}", m.chars().take(120).collect::<String>()),
                p,
            );
            return;
        }
        _ => {}
    }

    // ---- every returned draw is a valid earlier state ----
    let mut prev_pos: Vec<f64> = START.iter().map(|x| x + 0.01 * r.init_retries as f64).collect();
    let mut last_move: Option<usize> = None;
    let mut last_traj_fault_draw: Option<usize> = None;
    let mut lo = n_init;
    for (d, dr) in r.res.draws.iter().enumerate() {
        let hi = dr.n_eval_after;
        let range: Vec<&(u64, Vec<f64>, Option<f64>, Vec<f64>)> =
            r.evals.iter().filter(|e| e.0 >= lo && e.0 < hi).collect();
        let n_traj = if c.preset.is_nuts() {
            (dr.num_steps as usize).min(range.len())
        } else {
            range.len()
        };
        // faults that fired in a trajectory leapfrog of this draw
        let traj_faults: Vec<(u64, FaultKind)> = range[..n_traj]
            .iter()
            .filter(|e| r.fired.contains(&e.0))
            .filter_map(|e| kind_at(e.0).map(|f| (e.0, f)))
            .collect();
        let search_faults: Vec<u64> = range[n_traj..]
            .iter()
            .filter(|e| r.fired.contains(&e.0))
            .map(|e| e.0)
            .collect();
        let stat_div = bool_of(&dr.stats, "diverging").unwrap_or(false);
        // a "huge drop" is only an energy error relative to the trajectory's start: when the start
        // state itself carries a dropped log-density (the fault hit the evaluation of the initial
        // point) a second drop of the same size is no energy error at all
        let start_logp = if d == 0 {
            r.evals.iter().filter(|e| e.0 < n_init).last().and_then(|e| e.2)
        } else {
            f64_of(&r.res.draws[d - 1].stats, "logp")
        };
        // by how much the start state's log-density (as the sampler knows it) lies below the truth
        let start_drop = {
            let mut g = vec![0.0; prev_pos.len()];
            let truth = target().logp(&prev_pos, &mut g);
            start_logp.map(|l| (truth - l).max(0.0)).unwrap_or(0.0)
        };
        let drop_of = |f: FaultKind| match f {
            FaultKind::HugeDrop => Some(1e6),
            FaultKind::Drop1500 => Some(1500.0),
            FaultKind::Drop600 => Some(600.0),
            _ => None,
        };
        // a lowered log-density is a fault of the trajectory exactly when the energy error it
        // causes relative to the trajectory's start exceeds max_energy_error (1000 in every
        // configuration here; 100 of slack for the energy error of the integration itself)
        let traj_faults: Vec<(u64, FaultKind)> = traj_faults.into_iter().filter(|(_, f)| drop_of(*f).map(|d| d - start_drop > c.max_energy_error + 100.0).unwrap_or(true)).collect();
        if !traj_faults.is_empty() {
            let must_diverge = c.preset.is_nuts() || !c.dynamic;
            if must_diverge && !(dr.diverging && stat_div) {
                viol(
                    "trajectory-fault-not-reported-as-divergence",
                    format!("draw {d}: faults {:?} in its trajectory, diverging={} stats.diverging={stat_div}", traj_faults.iter().map(|(k, f)| format!("{k}:{}", f.name())).collect::<Vec<_>>(), dr.diverging),
                    p,
                );
            }
            p.class(format!("{}:traj:{}:{}", c.name, traj_faults[0].1.name(), dr.diverging));
        } else if !search_faults.is_empty() {
            p.class(format!("{}:search-in-adapt", c.name));
        }
        if dr.diverging != stat_div {
            viol("diverging-flags-disagree", format!("draw {d}"), p);
        }
        // position: bit-exact an earlier valid state
        let finite = dr.pos.iter().all(|x| x.is_finite());
        if !finite {
            viol("non-finite-position-returned", format!("draw {d}: {:?}", dr.pos), p);
        }
        let mut known = mc_core::slice_bits_eq(&dr.pos, &prev_pos);
        let mut from_faulty_eval = false;
        for e in &range[..n_traj] {
            if mc_core::slice_bits_eq(&dr.pos, &e.1) {
                // (a state whose log-density is merely 600 lower is a valid state for the sampler)
                let faulty = r.fired.contains(&e.0) && kind_at(e.0) != Some(FaultKind::Drop600);
                if !faulty {
                    known = true;
                } else {
                    from_faulty_eval = true;
                }
            }
        }
        if !known {
            viol(
                "returned-position-is-not-an-earlier-valid-state",
                format!("draw {d}: position {:?} (is the position of a faulty evaluation: {from_faulty_eval})", dr.pos),
                p,
            );
        }
        // reported logp / gradient are those of the returned position
        let mut g = vec![0.0; dr.pos.len()];
        let lp = target().logp(&dr.pos, &mut g);
        // what the density itself answered at the evaluation that produced this state: a finite
        // (however wrong) value returned for the initial point is that point's log-density as far
        // as the sampler can know
        let answered: Vec<&(u64, Vec<f64>, Option<f64>, Vec<f64>)> = r.evals.iter().filter(|e| e.0 < hi && e.2.is_some() && mc_core::slice_bits_eq(&e.1, &dr.pos)).collect();
        let logp_ok = |l: f64| l.to_bits() == lp.to_bits() || answered.iter().any(|e| e.2.map(|x| x.to_bits()) == Some(l.to_bits()));
        match f64_of(&dr.stats, "logp") {
            Some(l) if logp_ok(l) => {}
            other => viol(
                "reported-logp-is-not-that-of-the-returned-position",
                format!("draw {d}: stats.logp={other:?}, density at the position = {lp}"),
                p,
            ),
        }
        if let Some(sg) = vec_of(&dr.stats, "gradient") {
            if !mc_core::slice_bits_eq(&sg, &g) && !answered.iter().any(|e| mc_core::slice_bits_eq(&e.3, &sg)) {
                viol("reported-gradient-is-not-that-of-the-returned-position", format!("draw {d}: {sg:?} vs {g:?}"), p);
            }
        }
        if let Some(u) = vec_of(&dr.stats, "unconstrained_draw") {
            if !mc_core::slice_bits_eq(&u, &dr.pos) {
                viol("unconstrained-draw-differs-from-position", format!("draw {d}"), p);
            }
        }
        if !(dr.step_size.is_finite() && dr.step_size > 0.0) {
            viol("step-size-not-positive-finite", format!("draw {d}: {}", dr.step_size), p);
        }
        for name in ["mass_matrix_inv", "mass_matrix_stds"] {
            if let Some(m) = vec_of(&dr.stats, name) {
                if m.iter().any(|x| !(x.is_finite() && *x > 0.0)) {
                    viol("mass-matrix-scale-degenerate", format!("draw {d}: {name}={m:?}"), p);
                }
            }
        }
        // the statistics the adaptation is fed with stay numbers (a NaN acceptance statistic
        // poisons the step-size recurrence for the rest of the run: "invalid draws afterwards")
        for name in ["mean_tree_accept", "mean_tree_accept_sym", "step_size_bar"] {
            if let Some(v) = f64_of(&dr.stats, name) {
                if !v.is_finite() {
                    viol("adaptation-statistic-not-finite", format!("draw {d}: {name} = {v}"), p);
                }
            }
        }
        if !mc_core::slice_bits_eq(&dr.pos, &prev_pos) {
            last_move = Some(d);
        }
        if !traj_faults.is_empty() && last_traj_fault_draw.is_none() {
            last_traj_fault_draw = Some(d);
        }
        prev_pos = dr.pos.clone();
        lo = hi;
    }
    // a single misbehaving evaluation must not freeze the chain: if at least four draws follow the
    // first faulted trajectory, one of them moves (the fault-free run of every configuration moves
    // in every draw; a frozen chain returns the pre-fault position for ever)
    if let Some(df) = last_traj_fault_draw {
        let later = r.res.draws.len().saturating_sub(df + 1);
        if later >= 4 && last_move.map(|m| m <= df).unwrap_or(true) {
            viol("chain-frozen-after-fault", format!("trajectory fault in draw {df}; none of the {later} later draws moved"), p);
        }
    }
}

fn short_end(e: &RunEnd) -> String {
    format!("{e:?}").chars().take(160).collect()
}

pub fn run_check(tier: Tier, _replay: Option<String>) -> i32 {
    let mut report = Report::new(
        "C05",
        tier,
        "fault_enumeration",
        "presets {Diag,LowRank} x {Euclidean, ExactNormal} NUTS + Flow NUTS + DiagMclmc (dynamic step size on/off): every evaluation index k of set_position + num_tune + 4 draws x 8 fault kinds (recoverable/unrecoverable error, logp NaN/+inf/-inf, gradient NaN/inf, huge finite logp drop); pairs of faults at evaluations (k, k+j), j in 1..=window. distinct = (config, phase of the fault, kind, outcome) classes",
    );
    report.assume("2-d diagonal Gaussian target; the phase of an evaluation is derived from the density's own evaluation log and Progress.num_steps");
    let mut cfgs = vec![];
    let tunes: Vec<u64> = tier.pick(vec![10], vec![10, 25]);
    for &nt in &tunes {
        for preset in [Preset::DiagNuts, Preset::LowRankNuts] {
            for kin in [KineticEnergyKind::Euclidean, KineticEnergyKind::ExactNormal] {
                cfgs.push(Cfg { preset, kinetic: kin, num_tune: nt, dynamic: false, extra_doublings: 0, mindepth: 0, max_energy_error: 1000.0, name: format!("{preset:?}-{kin:?}-tune{nt}") });
                // non-default tree options: forced doublings / a requested integration time together
                // with a tight energy-error limit (a drop of 600 is then a fault by itself)
                if kin == KineticEnergyKind::Euclidean && nt == 10 && preset == Preset::DiagNuts {
                    cfgs.push(Cfg { preset, kinetic: kin, num_tune: nt, dynamic: false, extra_doublings: 0, mindepth: 2, max_energy_error: 50.0, name: format!("{preset:?}-{kin:?}-tune{nt}-mindepth2-mee50") });
                    cfgs.push(Cfg { preset, kinetic: kin, num_tune: nt, dynamic: false, extra_doublings: 1, mindepth: 0, max_energy_error: 50.0, name: format!("{preset:?}-{kin:?}-tune{nt}-extra1-mee50") });
                }
                // non-default tree option: doublings that continue after the U-turn criterion fired
                if kin == KineticEnergyKind::Euclidean && nt == 10 {
                    cfgs.push(Cfg { preset, kinetic: kin, num_tune: nt, dynamic: false, extra_doublings: 2, mindepth: 0, max_energy_error: 1000.0, name: format!("{preset:?}-{kin:?}-tune{nt}-extra2") });
                }
            }
        }
        cfgs.push(Cfg { preset: Preset::FlowNuts, kinetic: KineticEnergyKind::Euclidean, num_tune: nt, dynamic: false, extra_doublings: 0, mindepth: 0, max_energy_error: 1000.0, name: format!("FlowNuts-tune{nt}") });
        for dynamic in [false, true] {
            cfgs.push(Cfg { preset: Preset::DiagMclmc, kinetic: KineticEnergyKind::Euclidean, num_tune: nt, dynamic, extra_doublings: 0, mindepth: 0, max_energy_error: 1000.0, name: format!("DiagMclmc-dynamic{dynamic}-tune{nt}") });
        }
    }
    // job list: (config index, faults)
    let mut jobs: Vec<(usize, Vec<(u64, FaultKind)>, String)> = vec![];
    let window: u64 = tier.pick(1, 6);
    let pair_kinds: Vec<FaultKind> = tier.pick(
        vec![FaultKind::Recoverable, FaultKind::LogpNan, FaultKind::GradInf],
        FaultKind::ALL.to_vec(),
    );
    let mut totals = vec![];
    for (ci, c) in cfgs.iter().enumerate() {
        let base = run(c, &[]);
        let e = base.evals.len() as u64;
        totals.push(json!({"config": c.name, "evaluations_in_fault_free_run": e}));
        jobs.push((ci, vec![], "nofault".into()));
        for k in 0..e {
            for f in FaultKind::ALL {
                jobs.push((ci, vec![(k, f)], format!("k{k}-{}", f.name())));
            }
            // an energy error that builds up over two steps, each below the limit relative to the
            // step before it
            if c.preset.is_nuts() && k + 1 < e {
                jobs.push((ci, vec![(k, FaultKind::Drop600), (k + 1, FaultKind::Drop1500)], format!("k{k}-drop_600+k{}-drop_1500", k + 1)));
                jobs.push((ci, vec![(k, FaultKind::Drop1500)], format!("k{k}-drop_1500")));
            }
            if c.max_energy_error < 500.0 {
                jobs.push((ci, vec![(k, FaultKind::Drop600)], format!("k{k}-drop_600")));
            }
            // (round 13, after C13k) an unrecoverable error right after a fault that the chain
            // survives (a retry with a halved step, a trajectory that goes on): also in Q, where
            // the general pair alphabet below leaves the unrecoverable kind out
            if tier == Tier::Quick {
                for j in 1..=2u64 {
                    if k + j < e {
                        for f1 in [FaultKind::Recoverable, FaultKind::HugeDrop] {
                            jobs.push((ci, vec![(k, f1), (k + j, FaultKind::Unrecoverable)], format!("k{k}-{}+k{}-unrecoverable_err", f1.name(), k + j)));
                        }
                    }
                }
            }
            for j in 1..=window {
                if k + j >= e {
                    continue;
                }
                for f1 in &pair_kinds {
                    for f2 in &pair_kinds {
                        jobs.push((ci, vec![(k, *f1), (k + j, *f2)], format!("k{k}-{}+k{}-{}", f1.name(), k + j, f2.name())));
                    }
                }
            }
        }
    }
    report.bounds = json!({"configs": totals, "jobs": jobs.len(), "pair_window": window});
    mc_core::par_for_each(&jobs, |i, (ci, faults, tag)| {
        let mut p = Partial::new();
        let c = &cfgs[*ci];
        let r = run(c, faults);
        p.evaluations += 1;
        judge(c, faults, &r, &mut p, tag);
        if i % 5000 == 17 {
            p.sample(json!({"config": c.name, "faults": faults.iter().map(|(k, f)| json!([k, f.name()])).collect::<Vec<_>>(),
                "end": short_end(&r.res.end), "diverging_draws": r.res.draws.iter().enumerate().filter(|(_, d)| d.diverging).map(|(i, _)| i).collect::<Vec<_>>()}));
        }
        report.merge(p);
    });
    report.finish()
}
