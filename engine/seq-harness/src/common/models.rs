//! Densities used by the harness. All of them are `CpuLogpFunc`s with
//!  * an evaluation counter and (optionally) a log of every evaluated position,
//!  * a fault plan: at evaluation index k the density misbehaves in a chosen way,
//!  * an affine "flow" (FlowParameters) so that the Flow* presets can be driven too.
//!
//! The harness owns this seam completely: a chain is a deterministic function of
//! (density, fault plan, RNG answers).

use std::cell::RefCell;
use std::collections::HashMap;
use std::rc::Rc;

use nuts_rs::{CpuLogpFunc, CpuMathError, HasDims, LogpError};
use thiserror::Error;

#[derive(Clone, Debug)]
pub enum Target {
    /// independent normal with mean mu[i], sd sigma[i]
    DiagNormal { mu: Vec<f64>, sigma: Vec<f64> },
    /// N(mu, P^-1) with dense precision matrix P (row major d x d)
    DenseNormal { mu: Vec<f64>, prec: Vec<f64> },
    /// 2-d banana: x0 ~ N(0, s), x1 | x0 ~ N(b*x0^2, 1)
    Banana { s: f64, b: f64 },
    /// product of exp(-x^4/4)
    Quartic { d: usize },
    /// product of Student-t with nu degrees of freedom
    StudentT { d: usize, nu: f64 },
    /// skewed product target: logp = sum( a*x - exp(x) )  (log-gamma like)
    Skewed { d: usize, a: f64 },
    /// another target with a constant added to its log density (same gradient)
    Offset { inner: Box<Target>, c: f64 },
}

impl Target {
    pub fn std_normal(d: usize) -> Target {
        Target::DiagNormal {
            mu: vec![0.0; d],
            sigma: vec![1.0; d],
        }
    }
    pub fn dim(&self) -> usize {
        match self {
            Target::DiagNormal { mu, .. } => mu.len(),
            Target::DenseNormal { mu, .. } => mu.len(),
            Target::Banana { .. } => 2,
            Target::Quartic { d } => *d,
            Target::StudentT { d, .. } => *d,
            Target::Skewed { d, .. } => *d,
            Target::Offset { inner, .. } => inner.dim(),
        }
    }
    /// log density and gradient, plain scalar code (this is also the reference the oracles use)
    pub fn logp(&self, x: &[f64], g: &mut [f64]) -> f64 {
        match self {
            Target::Offset { inner, c } => inner.logp(x, g) + c,
            Target::DiagNormal { mu, sigma } => {
                let mut lp = 0.0;
                for i in 0..x.len() {
                    let z = (x[i] - mu[i]) / sigma[i];
                    lp -= 0.5 * z * z;
                    g[i] = -z / sigma[i];
                }
                lp
            }
            Target::DenseNormal { mu, prec } => {
                let d = mu.len();
                let mut lp = 0.0;
                for i in 0..d {
                    let mut s = 0.0;
                    for j in 0..d {
                        s += prec[i * d + j] * (x[j] - mu[j]);
                    }
                    g[i] = -s;
                    lp -= 0.5 * (x[i] - mu[i]) * s;
                }
                lp
            }
            Target::Banana { s, b } => {
                let r = x[1] - b * x[0] * x[0];
                g[0] = -x[0] / (s * s) + 2.0 * b * x[0] * r;
                g[1] = -r;
                -0.5 * x[0] * x[0] / (s * s) - 0.5 * r * r
            }
            Target::Quartic { .. } => {
                let mut lp = 0.0;
                for i in 0..x.len() {
                    lp -= 0.25 * x[i].powi(4);
                    g[i] = -x[i].powi(3);
                }
                lp
            }
            Target::StudentT { nu, .. } => {
                let mut lp = 0.0;
                for i in 0..x.len() {
                    let t = 1.0 + x[i] * x[i] / nu;
                    lp -= 0.5 * (nu + 1.0) * t.ln();
                    g[i] = -(nu + 1.0) * x[i] / (nu * t);
                }
                lp
            }
            Target::Skewed { a, .. } => {
                let mut lp = 0.0;
                for i in 0..x.len() {
                    lp += a * x[i] - x[i].exp();
                    g[i] = a - x[i].exp();
                }
                lp
            }
        }
    }
}

#[derive(Clone, Copy, Debug, PartialEq, Eq, PartialOrd, Ord, Hash)]
pub enum FaultKind {
    Recoverable,
    Unrecoverable,
    LogpNan,
    LogpPosInf,
    LogpNegInf,
    GradNan,
    GradInf,
    /// finite log density 1e6 lower than the truth: energy error far above any max_energy_error
    HugeDrop,
    /// finite log density 600 / 1500 lower than the truth: with the default max_energy_error of
    /// 1000 the first is no fault by itself, the second is an energy error above the limit
    /// (relative to the START of the trajectory)
    Drop600,
    Drop1500,
}

impl FaultKind {
    pub const ALL: [FaultKind; 8] = [
        FaultKind::Recoverable,
        FaultKind::Unrecoverable,
        FaultKind::LogpNan,
        FaultKind::LogpPosInf,
        FaultKind::LogpNegInf,
        FaultKind::GradNan,
        FaultKind::GradInf,
        FaultKind::HugeDrop,
    ];
    pub fn name(&self) -> &'static str {
        match self {
            FaultKind::Recoverable => "recoverable_err",
            FaultKind::Unrecoverable => "unrecoverable_err",
            FaultKind::LogpNan => "logp_nan",
            FaultKind::LogpPosInf => "logp_posinf",
            FaultKind::LogpNegInf => "logp_neginf",
            FaultKind::GradNan => "grad_nan",
            FaultKind::GradInf => "grad_inf",
            FaultKind::HugeDrop => "huge_drop",
            FaultKind::Drop600 => "drop_600",
            FaultKind::Drop1500 => "drop_1500",
        }
    }
}

#[derive(Error, Debug, Clone)]
pub enum HErr {
    #[error("injected recoverable density error at evaluation {0}")]
    Recoverable(u64),
    #[error("injected unrecoverable density error at evaluation {0}")]
    Unrecoverable(u64),
}

impl LogpError for HErr {
    fn is_recoverable(&self) -> bool {
        matches!(self, HErr::Recoverable(_))
    }
}

/// Shared, inspectable side of a density (the harness keeps a clone of the Rc).
#[derive(Default, Debug)]
pub struct DensLog {
    pub n_eval: u64,
    pub faults: Vec<(u64, FaultKind)>,
    pub record_positions: bool,
    /// (evaluation index, position, logp returned (None = Err), gradient)
    pub evals: Vec<(u64, Vec<f64>, Option<f64>, Vec<f64>)>,
    /// indices at which a fault actually fired
    pub fired: Vec<u64>,
    /// Some(n): the density panics with "evaluation budget exceeded" at evaluation n (harness
    /// watchdog for configurations that make a draw astronomically long)
    pub eval_budget: Option<u64>,
}

pub type LogRc = Rc<RefCell<DensLog>>;

/// Affine flow parameters for the Flow* presets: y = (x - shift) / scale, id bumps on update.
#[derive(Clone, Debug)]
pub struct AffineFlow {
    pub shift: Vec<f64>,
    pub scale: Vec<f64>,
    pub id: i64,
}

#[derive(Clone, Debug)]
pub struct Dens {
    pub target: Target,
    pub log: LogRc,
    /// when true `update_transformation` refits the affine flow from the draws (and bumps id)
    pub flow_learns: bool,
}

impl Dens {
    pub fn new(target: Target) -> Dens {
        Dens {
            target,
            log: Rc::new(RefCell::new(DensLog::default())),
            flow_learns: true,
        }
    }
    pub fn with_faults(target: Target, faults: Vec<(u64, FaultKind)>) -> Dens {
        let d = Dens::new(target);
        d.log.borrow_mut().faults = faults;
        d
    }
    pub fn recording(self) -> Dens {
        self.log.borrow_mut().record_positions = true;
        self
    }
    pub fn n_eval(&self) -> u64 {
        self.log.borrow().n_eval
    }
}

impl HasDims for Dens {
    fn dim_sizes(&self) -> HashMap<String, u64> {
        let d = self.target.dim() as u64;
        HashMap::from([
            ("unconstrained_parameter".to_string(), d),
            ("dim".to_string(), d),
        ])
    }
}

impl CpuLogpFunc for Dens {
    type LogpError = HErr;
    type FlowParameters = AffineFlow;
    type ExpandedVector = Vec<f64>;

    fn dim(&self) -> usize {
        self.target.dim()
    }

    fn logp(&mut self, position: &[f64], gradient: &mut [f64]) -> Result<f64, HErr> {
        let mut log = self.log.borrow_mut();
        let k = log.n_eval;
        log.n_eval += 1;
        if let Some(b) = log.eval_budget {
            if k >= b {
                drop(log);
                panic!("HARNESS: evaluation budget exceeded");
            }
        }
        let fault = log.faults.iter().find(|(i, _)| *i == k).map(|(_, f)| *f);
        let mut lp = self.target.logp(position, gradient);
        let mut res = Ok(());
        if let Some(f) = fault {
            log.fired.push(k);
            match f {
                FaultKind::Recoverable => res = Err(HErr::Recoverable(k)),
                FaultKind::Unrecoverable => res = Err(HErr::Unrecoverable(k)),
                FaultKind::LogpNan => lp = f64::NAN,
                FaultKind::LogpPosInf => lp = f64::INFINITY,
                FaultKind::LogpNegInf => lp = f64::NEG_INFINITY,
                FaultKind::GradNan => {
                    if let Some(g) = gradient.first_mut() {
                        *g = f64::NAN
                    }
                }
                FaultKind::GradInf => {
                    if let Some(g) = gradient.last_mut() {
                        *g = f64::INFINITY
                    }
                }
                FaultKind::HugeDrop => lp -= 1e6,
                FaultKind::Drop600 => lp -= 600.0,
                FaultKind::Drop1500 => lp -= 1500.0,
            }
        }
        if log.record_positions {
            let r = if res.is_ok() { Some(lp) } else { None };
            log.evals
                .push((k, position.to_vec(), r, gradient.to_vec()));
        }
        res.map(|_| lp)
    }

    fn expand_vector<R: rand::Rng + ?Sized>(
        &mut self,
        _rng: &mut R,
        array: &[f64],
    ) -> Result<Vec<f64>, CpuMathError> {
        Ok(array.to_vec())
    }

    // ---- affine flow (used by FlowNutsSettings / FlowMclmcSettings) ----

    fn inv_transform_normalize(
        &mut self,
        params: &AffineFlow,
        untransformed_position: &[f64],
        untransformed_gradient: &[f64],
        transformed_position: &mut [f64],
        transformed_gradient: &mut [f64],
    ) -> Result<f64, HErr> {
        let mut logdet = 0.0;
        for i in 0..untransformed_position.len() {
            transformed_position[i] = (untransformed_position[i] - params.shift[i]) / params.scale[i];
            transformed_gradient[i] = untransformed_gradient[i] * params.scale[i];
            logdet -= params.scale[i].ln();
        }
        Ok(logdet)
    }

    fn init_from_untransformed_position(
        &mut self,
        params: &AffineFlow,
        untransformed_position: &[f64],
        untransformed_gradient: &mut [f64],
        transformed_position: &mut [f64],
        transformed_gradient: &mut [f64],
    ) -> Result<(f64, f64), HErr> {
        let lp = self.logp(untransformed_position, untransformed_gradient)?;
        let logdet = self.inv_transform_normalize(
            params,
            untransformed_position,
            untransformed_gradient,
            transformed_position,
            transformed_gradient,
        )?;
        Ok((lp, logdet))
    }

    fn init_from_transformed_position(
        &mut self,
        params: &AffineFlow,
        untransformed_position: &mut [f64],
        untransformed_gradient: &mut [f64],
        transformed_position: &[f64],
        transformed_gradient: &mut [f64],
    ) -> Result<(f64, f64), HErr> {
        for i in 0..transformed_position.len() {
            untransformed_position[i] = transformed_position[i] * params.scale[i] + params.shift[i];
        }
        let lp = self.logp(untransformed_position, untransformed_gradient)?;
        let mut logdet = 0.0;
        for i in 0..transformed_position.len() {
            transformed_gradient[i] = untransformed_gradient[i] * params.scale[i];
            logdet -= params.scale[i].ln();
        }
        Ok((lp, logdet))
    }

    fn update_transformation<'a, R: rand::Rng + ?Sized>(
        &'a mut self,
        _rng: &mut R,
        untransformed_positions: impl ExactSizeIterator<Item = &'a [f64]>,
        _untransformed_gradients: impl ExactSizeIterator<Item = &'a [f64]>,
        _untransformed_logp: impl ExactSizeIterator<Item = &'a f64>,
        params: &'a mut AffineFlow,
    ) -> Result<(), HErr> {
        if !self.flow_learns {
            return Ok(());
        }
        let pts: Vec<&[f64]> = untransformed_positions.collect();
        if pts.len() < 3 {
            return Ok(());
        }
        let d = params.shift.len();
        let n = pts.len() as f64;
        for i in 0..d {
            let m = pts.iter().map(|p| p[i]).sum::<f64>() / n;
            let v = pts.iter().map(|p| (p[i] - m) * (p[i] - m)).sum::<f64>() / n;
            if v.is_finite() && v > 0.0 {
                params.shift[i] = m;
                params.scale[i] = v.sqrt();
            }
        }
        params.id += 1;
        Ok(())
    }

    fn init_transformation<R: rand::Rng + ?Sized>(
        &mut self,
        _rng: &mut R,
        untransformed_position: &[f64],
        _untransformed_gradient: &[f64],
        _chain: u64,
    ) -> Result<AffineFlow, HErr> {
        let d = untransformed_position.len();
        Ok(AffineFlow {
            shift: vec![0.0; d],
            scale: vec![1.0; d],
            id: 0,
        })
    }

    fn new_transformation<R: rand::Rng + ?Sized>(
        &mut self,
        _rng: &mut R,
        dim: usize,
        _chain: u64,
    ) -> Result<AffineFlow, HErr> {
        Ok(AffineFlow {
            shift: vec![0.0; dim],
            scale: vec![1.0; dim],
            id: 0,
        })
    }

    fn transformation_id(&self, params: &AffineFlow) -> Result<i64, HErr> {
        Ok(params.id)
    }
}

/// A small family of targets with known structure used across checks.
pub fn correlated_gaussian_3d() -> Target {
    // precision matrix of a 3-d Gaussian with correlations; SPD by construction (A^T A + I)
    let prec = vec![2.0, 0.6, -0.3, 0.6, 1.5, 0.4, -0.3, 0.4, 1.2];
    Target::DenseNormal {
        mu: vec![0.5, -1.0, 0.25],
        prec,
    }
}
