//! `SpyMath`: a delegating implementation of the public `Math` trait around `CpuMath<F>`.
//!
//! It logs the calls the oracles need (density evaluations, momentum draws, U-turn products,
//! ESH updates, normalisations) and lets the harness script `array_gaussian` (the momentum seam).

use std::cell::RefCell;
use std::collections::{HashMap, VecDeque};
use std::rc::Rc;

use faer::{Col, Mat};
use nuts_rs::{CpuLogpFunc, CpuMath, CpuMathError, HasDims, ItemType, Math, Storable, Value};

#[derive(Clone, Debug)]
pub enum SpyEvent {
    Logp {
        pos: Vec<f64>,
        ok: bool,
        logp: f64,
    },
    Gaussian {
        out: Vec<f64>,
        scripted: bool,
    },
    Prods3 {
        pos1: Vec<f64>,
        neg1: Vec<f64>,
        x: Vec<f64>,
        y: Vec<f64>,
        out: (f64, f64),
    },
    Esh {
        grad: Vec<f64>,
        before: Vec<f64>,
        after: Vec<f64>,
        step: f64,
        ret: f64,
    },
    Normalize {
        after: Vec<f64>,
    },
}

#[derive(Default)]
pub struct SpyState {
    pub events: Vec<SpyEvent>,
    pub log_enabled: bool,
    /// scripted momentum vectors (consumed front first); empty = delegate to the RNG
    pub gaussian_script: VecDeque<Vec<f64>>,
    /// when the script is empty: produce a deterministic vector instead of consulting the RNG
    /// (keeps the momentum seam owned even for calls the harness did not script explicitly)
    pub gaussian_deterministic_fallback: bool,
    pub n_logp: u64,
    pub n_gaussian: u64,
    pub n_prods3: u64,
}

pub type SpyRc = Rc<RefCell<SpyState>>;

pub struct SpyMath<F: CpuLogpFunc> {
    pub inner: CpuMath<F>,
    pub spy: SpyRc,
}

impl<F: CpuLogpFunc> SpyMath<F> {
    pub fn new(f: F) -> (Self, SpyRc) {
        let spy = Rc::new(RefCell::new(SpyState::default()));
        (
            SpyMath {
                inner: CpuMath::new(f),
                spy: spy.clone(),
            },
            spy,
        )
    }
    pub fn logging(f: F) -> (Self, SpyRc) {
        let (m, s) = Self::new(f);
        s.borrow_mut().log_enabled = true;
        (m, s)
    }
}

fn v(c: &Col<f64>) -> Vec<f64> {
    c.try_as_col_major().unwrap().as_slice().to_vec()
}

impl<F: CpuLogpFunc> HasDims for SpyMath<F> {
    fn dim_sizes(&self) -> HashMap<String, u64> {
        self.inner.dim_sizes()
    }
    fn coords(&self) -> HashMap<String, Value> {
        self.inner.coords()
    }
}

pub struct SpyExpanded<F: CpuLogpFunc>(pub <CpuMath<F> as Math>::ExpandedVector);

impl<F: CpuLogpFunc> Storable<SpyMath<F>> for SpyExpanded<F> {
    fn names(parent: &SpyMath<F>) -> Vec<&str> {
        <<CpuMath<F> as Math>::ExpandedVector as Storable<CpuMath<F>>>::names(&parent.inner)
    }
    fn item_type(parent: &SpyMath<F>, item: &str) -> ItemType {
        <<CpuMath<F> as Math>::ExpandedVector as Storable<CpuMath<F>>>::item_type(
            &parent.inner,
            item,
        )
    }
    fn dims<'a>(parent: &'a SpyMath<F>, item: &str) -> Vec<&'a str> {
        <<CpuMath<F> as Math>::ExpandedVector as Storable<CpuMath<F>>>::dims(&parent.inner, item)
    }
    fn event_dim(parent: &SpyMath<F>, item: &str) -> Option<&'static str> {
        <<CpuMath<F> as Math>::ExpandedVector as Storable<CpuMath<F>>>::event_dim(
            &parent.inner,
            item,
        )
    }
    fn get_all<'a>(&'a mut self, parent: &'a SpyMath<F>) -> Vec<(&'a str, Option<Value>)> {
        self.0.get_all(&parent.inner)
    }
}

impl<F: CpuLogpFunc> Math for SpyMath<F> {
    type Vector = Col<f64>;
    type EigVectors = Mat<f64>;
    type EigValues = Col<f64>;
    type LogpErr = F::LogpError;
    type Err = CpuMathError;
    type FlowParameters = F::FlowParameters;
    type ExpandedVector = SpyExpanded<F>;

    fn new_array(&mut self) -> Self::Vector {
        self.inner.new_array()
    }
    fn new_eig_vectors<'a>(
        &'a mut self,
        vals: impl ExactSizeIterator<Item = &'a [f64]>,
    ) -> Self::EigVectors {
        self.inner.new_eig_vectors(vals)
    }
    fn new_eig_values(&mut self, vals: &[f64]) -> Self::EigValues {
        self.inner.new_eig_values(vals)
    }
    fn logp_array(
        &mut self,
        position: &Self::Vector,
        gradient: &mut Self::Vector,
    ) -> Result<f64, Self::LogpErr> {
        let r = self.inner.logp_array(position, gradient);
        let mut s = self.spy.borrow_mut();
        s.n_logp += 1;
        if s.log_enabled {
            s.events.push(SpyEvent::Logp {
                pos: v(position),
                ok: r.is_ok(),
                logp: *r.as_ref().unwrap_or(&f64::NAN),
            });
        }
        r
    }
    fn logp(&mut self, position: &[f64], gradient: &mut [f64]) -> Result<f64, Self::LogpErr> {
        let r = self.inner.logp(position, gradient);
        let mut s = self.spy.borrow_mut();
        s.n_logp += 1;
        if s.log_enabled {
            s.events.push(SpyEvent::Logp {
                pos: position.to_vec(),
                ok: r.is_ok(),
                logp: *r.as_ref().unwrap_or(&f64::NAN),
            });
        }
        r
    }
    fn init_position<R: rand::Rng + ?Sized>(
        &mut self,
        rng: &mut R,
        position: &mut Self::Vector,
        gradient: &mut Self::Vector,
    ) -> Result<f64, Self::LogpErr> {
        self.inner.init_position(rng, position, gradient)
    }
    fn expand_vector<R: rand::Rng + ?Sized>(
        &mut self,
        rng: &mut R,
        array: &Self::Vector,
    ) -> Result<Self::ExpandedVector, Self::Err> {
        Ok(SpyExpanded(self.inner.expand_vector(rng, array)?))
    }
    fn dim(&self) -> usize {
        self.inner.dim()
    }
    fn vector_coord(&self) -> Option<Value> {
        self.inner.vector_coord()
    }
    fn scalar_prods3(
        &mut self,
        positive1: &Self::Vector,
        negative1: &Self::Vector,
        positive2: &Self::Vector,
        x: &Self::Vector,
        y: &Self::Vector,
    ) -> (f64, f64) {
        let out = self
            .inner
            .scalar_prods3(positive1, negative1, positive2, x, y);
        let mut s = self.spy.borrow_mut();
        s.n_prods3 += 1;
        if s.log_enabled {
            s.events.push(SpyEvent::Prods3 {
                pos1: v(positive1),
                neg1: v(negative1),
                x: v(x),
                y: v(y),
                out,
            });
        }
        out
    }
    fn scalar_prods2(
        &mut self,
        positive1: &Self::Vector,
        positive2: &Self::Vector,
        x: &Self::Vector,
        y: &Self::Vector,
    ) -> (f64, f64) {
        self.inner.scalar_prods2(positive1, positive2, x, y)
    }
    fn sq_norm_sum(&mut self, x: &Self::Vector, y: &Self::Vector) -> f64 {
        self.inner.sq_norm_sum(x, y)
    }
    fn read_from_slice(&mut self, dest: &mut Self::Vector, source: &[f64]) {
        self.inner.read_from_slice(dest, source)
    }
    fn write_to_slice(&mut self, source: &Self::Vector, dest: &mut [f64]) {
        self.inner.write_to_slice(source, dest)
    }
    fn eigs_as_array(&mut self, source: &Self::EigValues) -> Box<[f64]> {
        self.inner.eigs_as_array(source)
    }
    fn copy_into(&mut self, array: &Self::Vector, dest: &mut Self::Vector) {
        self.inner.copy_into(array, dest)
    }
    fn axpy_out(&mut self, x: &Self::Vector, y: &Self::Vector, a: f64, out: &mut Self::Vector) {
        self.inner.axpy_out(x, y, a, out)
    }
    fn axpy(&mut self, x: &Self::Vector, y: &mut Self::Vector, a: f64) {
        self.inner.axpy(x, y, a)
    }
    fn array_sum_ln(&mut self, array: &Self::Vector) -> f64 {
        self.inner.array_sum_ln(array)
    }
    fn fill_array(&mut self, array: &mut Self::Vector, val: f64) {
        self.inner.fill_array(array, val)
    }
    fn array_all_finite(&mut self, array: &Self::Vector) -> bool {
        self.inner.array_all_finite(array)
    }
    fn array_all_finite_and_nonzero(&mut self, array: &Self::Vector) -> bool {
        self.inner.array_all_finite_and_nonzero(array)
    }
    fn array_mult(&mut self, a: &Self::Vector, b: &Self::Vector, dest: &mut Self::Vector) {
        self.inner.array_mult(a, b, dest)
    }
    fn array_mult_inplace(&mut self, a: &mut Self::Vector, b: &Self::Vector) {
        self.inner.array_mult_inplace(a, b)
    }
    fn array_recip(&mut self, array: &Self::Vector, dest: &mut Self::Vector) {
        self.inner.array_recip(array, dest)
    }
    fn apply_lowrank_transform(
        &mut self,
        vecs: &Self::EigVectors,
        vals: &Self::EigValues,
        rhs: &Self::Vector,
        dest: &mut Self::Vector,
    ) {
        self.inner.apply_lowrank_transform(vecs, vals, rhs, dest)
    }
    fn apply_lowrank_transform_inplace(
        &mut self,
        vecs: &Self::EigVectors,
        vals: &Self::EigValues,
        rhs_and_dest: &mut Self::Vector,
    ) {
        self.inner
            .apply_lowrank_transform_inplace(vecs, vals, rhs_and_dest)
    }
    fn array_mult_eigs(
        &mut self,
        stds: &Self::Vector,
        rhs: &Self::Vector,
        dest: &mut Self::Vector,
        vecs: &Self::EigVectors,
        vals: &Self::EigValues,
    ) {
        self.inner.array_mult_eigs(stds, rhs, dest, vecs, vals)
    }
    fn std_norm_flow(
        &mut self,
        pos: &Self::Vector,
        pos_out: &mut Self::Vector,
        vel: &mut Self::Vector,
        epsilon: f64,
    ) {
        self.inner.std_norm_flow(pos, pos_out, vel, epsilon)
    }
    fn std_norm_grad_flow(
        &mut self,
        pos: &Self::Vector,
        grad: &Self::Vector,
        vel: &Self::Vector,
        vel_out: &mut Self::Vector,
        epsilon: f64,
    ) {
        self.inner.std_norm_grad_flow(pos, grad, vel, vel_out, epsilon)
    }
    fn std_norm_grad_flow_inplace(
        &mut self,
        pos: &Self::Vector,
        grad: &Self::Vector,
        vel: &mut Self::Vector,
        epsilon: f64,
    ) {
        self.inner
            .std_norm_grad_flow_inplace(pos, grad, vel, epsilon)
    }
    fn array_normalize(&mut self, vv: &mut Self::Vector) {
        self.inner.array_normalize(vv);
        let mut s = self.spy.borrow_mut();
        if s.log_enabled {
            s.events.push(SpyEvent::Normalize { after: v(vv) });
        }
    }
    fn esh_momentum_update(
        &mut self,
        grad: &Self::Vector,
        mom: &mut Self::Vector,
        step: f64,
    ) -> f64 {
        let before = if self.spy.borrow().log_enabled {
            Some(v(mom))
        } else {
            None
        };
        let ret = self.inner.esh_momentum_update(grad, mom, step);
        if let Some(before) = before {
            self.spy.borrow_mut().events.push(SpyEvent::Esh {
                grad: v(grad),
                before,
                after: v(mom),
                step,
                ret,
            });
        }
        ret
    }
    fn array_vector_dot(&mut self, a: &Self::Vector, b: &Self::Vector) -> f64 {
        self.inner.array_vector_dot(a, b)
    }
    fn array_gaussian<R: rand::Rng + ?Sized>(
        &mut self,
        rng: &mut R,
        dest: &mut Self::Vector,
        stds: &Self::Vector,
    ) {
        let mut scripted = self.spy.borrow_mut().gaussian_script.pop_front();
        if scripted.is_none() && self.spy.borrow().gaussian_deterministic_fallback {
            let k = self.spy.borrow().n_gaussian as f64;
            let n = self.inner.dim();
            scripted = Some(
                (0..n)
                    .map(|i| ((i as f64 + 1.0) * 1.37 + k * 0.77).sin() * 1.1 + 0.05 * ((k + i as f64) * 0.3).cos())
                    .collect(),
            );
        }
        let was_scripted = scripted.is_some();
        match scripted {
            Some(z) => {
                // dest = stds * z, exactly as CpuMath does with the standard-normal variate z
                let d = dest.try_as_col_major_mut().unwrap().as_slice_mut();
                let s = stds.try_as_col_major().unwrap().as_slice();
                for i in 0..d.len() {
                    d[i] = s[i] * z[i];
                }
            }
            None => self.inner.array_gaussian(rng, dest, stds),
        }
        let mut s = self.spy.borrow_mut();
        s.n_gaussian += 1;
        if s.log_enabled {
            s.events.push(SpyEvent::Gaussian {
                out: v(dest),
                scripted: was_scripted,
            });
        }
    }
    fn array_gaussian_eigs<R: rand::Rng + ?Sized>(
        &mut self,
        rng: &mut R,
        dest: &mut Self::Vector,
        scale: &Self::Vector,
        vals: &Self::EigValues,
        vecs: &Self::EigVectors,
    ) {
        self.inner.array_gaussian_eigs(rng, dest, scale, vals, vecs)
    }
    fn array_update_variance(
        &mut self,
        mean: &mut Self::Vector,
        variance: &mut Self::Vector,
        value: &Self::Vector,
        diff_scale: f64,
    ) {
        self.inner
            .array_update_variance(mean, variance, value, diff_scale)
    }
    fn array_update_var_inv_std_draw(
        &mut self,
        inv_std: &mut Self::Vector,
        std: &mut Self::Vector,
        draw_var: &Self::Vector,
        scale: f64,
        fill_invalid: Option<f64>,
        clamp: (f64, f64),
    ) {
        self.inner
            .array_update_var_inv_std_draw(inv_std, std, draw_var, scale, fill_invalid, clamp)
    }
    fn array_update_var_inv_std_draw_grad(
        &mut self,
        inv_std: &mut Self::Vector,
        std: &mut Self::Vector,
        draw_var: &Self::Vector,
        grad_var: &Self::Vector,
        fill_invalid: Option<f64>,
        clamp: (f64, f64),
    ) {
        self.inner.array_update_var_inv_std_draw_grad(
            inv_std,
            std,
            draw_var,
            grad_var,
            fill_invalid,
            clamp,
        )
    }
    fn array_update_var_inv_std_grad(
        &mut self,
        inv_std: &mut Self::Vector,
        std: &mut Self::Vector,
        gradient: &Self::Vector,
        fill_invalid: f64,
        clamp: (f64, f64),
    ) {
        self.inner
            .array_update_var_inv_std_grad(inv_std, std, gradient, fill_invalid, clamp)
    }
    fn inv_transform_normalize(
        &mut self,
        params: &Self::FlowParameters,
        untransformed_position: &Self::Vector,
        untransformed_gradient: &Self::Vector,
        transformed_position: &mut Self::Vector,
        transformed_gradient: &mut Self::Vector,
    ) -> Result<f64, Self::LogpErr> {
        self.inner.inv_transform_normalize(
            params,
            untransformed_position,
            untransformed_gradient,
            transformed_position,
            transformed_gradient,
        )
    }
    fn init_from_untransformed_position(
        &mut self,
        params: &Self::FlowParameters,
        untransformed_position: &Self::Vector,
        untransformed_gradient: &mut Self::Vector,
        transformed_position: &mut Self::Vector,
        transformed_gradient: &mut Self::Vector,
    ) -> Result<(f64, f64), Self::LogpErr> {
        self.inner.init_from_untransformed_position(
            params,
            untransformed_position,
            untransformed_gradient,
            transformed_position,
            transformed_gradient,
        )
    }
    fn init_from_transformed_position(
        &mut self,
        params: &Self::FlowParameters,
        untransformed_position: &mut Self::Vector,
        untransformed_gradient: &mut Self::Vector,
        transformed_position: &Self::Vector,
        transformed_gradient: &mut Self::Vector,
    ) -> Result<(f64, f64), Self::LogpErr> {
        self.inner.init_from_transformed_position(
            params,
            untransformed_position,
            untransformed_gradient,
            transformed_position,
            transformed_gradient,
        )
    }
    fn update_transformation<'a, R: rand::Rng + ?Sized>(
        &'a mut self,
        rng: &mut R,
        untransformed_positions: impl ExactSizeIterator<Item = &'a Self::Vector>,
        untransformed_gradients: impl ExactSizeIterator<Item = &'a Self::Vector>,
        untransformed_logps: impl ExactSizeIterator<Item = &'a f64>,
        params: &'a mut Self::FlowParameters,
    ) -> Result<(), Self::LogpErr> {
        self.inner.update_transformation(
            rng,
            untransformed_positions,
            untransformed_gradients,
            untransformed_logps,
            params,
        )
    }
    fn new_transformation<R: rand::Rng + ?Sized>(
        &mut self,
        rng: &mut R,
        dim: usize,
        chain: u64,
    ) -> Result<Self::FlowParameters, Self::LogpErr> {
        self.inner.new_transformation(rng, dim, chain)
    }
    fn init_transformation<R: rand::Rng + ?Sized>(
        &mut self,
        rng: &mut R,
        untransformed_position: &Self::Vector,
        untransformed_gradient: &Self::Vector,
        chain: u64,
    ) -> Result<Self::FlowParameters, Self::LogpErr> {
        self.inner
            .init_transformation(rng, untransformed_position, untransformed_gradient, chain)
    }
    fn transformation_id(&self, params: &Self::FlowParameters) -> Result<i64, Self::LogpErr> {
        self.inner.transformation_id(params)
    }
}
