pub mod models;
pub mod rng;
pub mod spy;
pub mod stats;
pub mod refmodel;
pub mod runner;
pub mod rnuts;
