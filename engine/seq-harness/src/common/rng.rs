//! Scripted random number generator: every answer is decided by the harness.
//!
//! `nuts::draw` consults the RNG in exactly two ways (besides the momentum, which is scripted at the
//! `Math::array_gaussian` seam): one `next_u32` per doubling (sign bit = direction) and one
//! `next_u64` per non-forced accept decision (`v < p * 2^64` accepts). Step-size jitter draws one
//! `next_u64` through `Uniform<f64>`.

use std::cell::RefCell;
use std::convert::Infallible;
use std::rc::Rc;

use rand::rand_core::TryRng;

#[derive(Clone, Debug, PartialEq)]
pub enum RngCall {
    U32(u32),
    U64(u64),
    Bytes(usize),
}

/// The harness supplies answers through a callback; all calls are logged.
pub struct ScriptedRng {
    pub answer_u32: Box<dyn FnMut(usize) -> u32>,
    pub answer_u64: Box<dyn FnMut(usize) -> u64>,
    pub log: Rc<RefCell<Vec<RngCall>>>,
}

impl ScriptedRng {
    pub fn new(
        answer_u32: Box<dyn FnMut(usize) -> u32>,
        answer_u64: Box<dyn FnMut(usize) -> u64>,
    ) -> Self {
        ScriptedRng {
            answer_u32,
            answer_u64,
            log: Rc::new(RefCell::new(Vec::new())),
        }
    }
}

impl TryRng for ScriptedRng {
    type Error = Infallible;
    fn try_next_u32(&mut self) -> Result<u32, Infallible> {
        let n = self.log.borrow().len();
        let v = (self.answer_u32)(n);
        self.log.borrow_mut().push(RngCall::U32(v));
        Ok(v)
    }
    fn try_next_u64(&mut self) -> Result<u64, Infallible> {
        let n = self.log.borrow().len();
        let v = (self.answer_u64)(n);
        self.log.borrow_mut().push(RngCall::U64(v));
        Ok(v)
    }
    fn try_fill_bytes(&mut self, dst: &mut [u8]) -> Result<(), Infallible> {
        // used only by seeding paths (ChaCha8Rng::try_from_rng); deterministic filler
        let n = self.log.borrow().len();
        for (i, b) in dst.iter_mut().enumerate() {
            *b = ((n * 131 + i * 17 + 7) & 0xff) as u8;
        }
        self.log.borrow_mut().push(RngCall::Bytes(dst.len()));
        Ok(())
    }
}

pub const DIR_FORWARD: u32 = 0x8000_0000; // sign bit set -> random::<bool>() == true -> Forward
pub const DIR_BACKWARD: u32 = 0;

/// p * 2^64 exactly as `rand::distr::Bernoulli::new` computes it
pub fn bernoulli_threshold(p: f64) -> u64 {
    const SCALE: f64 = 2.0 * (1u64 << 63) as f64;
    (p * SCALE) as u64
}
