//! Reference models ("boring on purpose"): plain scalar Rust, no dependency on nuts-rs internals.

/// Closed-form ESH momentum update on the unit sphere (Steeg & Gallagher 2021), written in the
/// hyperbolic form:  p' = (p + e (sinh d + (p.e)(cosh d - 1))) / (cosh d + (p.e) sinh d),
/// dKE = (n-1) ln(cosh d + (p.e) sinh d),   e = g/|g|, d = step |g| / (n-1).
pub fn esh_reference(grad: &[f64], mom: &[f64], step: f64) -> (Vec<f64>, f64) {
    let n = grad.len();
    let gn = grad.iter().map(|g| g * g).sum::<f64>().sqrt();
    let e: Vec<f64> = grad.iter().map(|g| g / gn).collect();
    let ue: f64 = mom.iter().zip(&e).map(|(p, e)| p * e).sum();
    let d = step * gn / (n as f64 - 1.0);
    let (sh, ch) = (d.sinh(), d.cosh());
    let denom = ch + ue * sh;
    let mut out: Vec<f64> = (0..n)
        .map(|i| (mom[i] + e[i] * (sh + ue * (ch - 1.0))) / denom)
        .collect();
    let nrm = out.iter().map(|x| x * x).sum::<f64>().sqrt();
    out.iter_mut().for_each(|x| *x /= nrm);
    (out, (n as f64 - 1.0) * denom.ln())
}

/// Nesterov dual averaging as published (Hoffman & Gelman 2014, with the log-step clamp and the
/// weighted average of the iterates documented by nuts-rs): R-dualavg.
#[derive(Clone, Debug)]
pub struct RefDualAverage {
    pub log_step: f64,
    pub log_step_bar: f64,
    pub hbar: f64,
    pub mu: f64,
    pub count: u64,
    pub k: f64,
    pub t0: f64,
    pub gamma: f64,
    pub max_step: f64,
}

impl RefDualAverage {
    pub fn new(k: f64, t0: f64, gamma: f64, max_step: f64, initial_step: f64) -> Self {
        RefDualAverage {
            log_step: initial_step.ln(),
            log_step_bar: initial_step.ln(),
            hbar: 0.0,
            mu: (10.0 * initial_step).ln(),
            count: 1,
            k,
            t0,
            gamma,
            max_step,
        }
    }
    pub fn advance(&mut self, accept: f64, target: f64) {
        let m = self.count as f64;
        let w = 1.0 / (m + self.t0);
        self.hbar = (1.0 - w) * self.hbar + w * (target - accept);
        let x = self.mu - m.sqrt() / self.gamma * self.hbar;
        self.log_step = x.min(self.max_step.ln());
        let eta = m.powf(-self.k);
        self.log_step_bar = eta * self.log_step + (1.0 - eta) * self.log_step_bar;
        self.count += 1;
    }
    pub fn step(&self) -> f64 {
        self.log_step.exp()
    }
    pub fn step_bar(&self) -> f64 {
        self.log_step_bar.exp()
    }
}

/// Adam on the log step size, "gradient" = accept - target (R-adam).
#[derive(Clone, Debug)]
pub struct RefAdam {
    pub log_step: f64,
    pub m: f64,
    pub v: f64,
    pub t: u64,
    pub beta1: f64,
    pub beta2: f64,
    pub eps: f64,
    pub lr: f64,
}

impl RefAdam {
    pub fn new(beta1: f64, beta2: f64, eps: f64, lr: f64, initial_step: f64) -> Self {
        RefAdam { log_step: initial_step.ln(), m: 0.0, v: 0.0, t: 0, beta1, beta2, eps, lr }
    }
    pub fn advance(&mut self, accept: f64, target: f64) -> f64 {
        let g = accept - target;
        self.t += 1;
        self.m = self.beta1 * self.m + (1.0 - self.beta1) * g;
        self.v = self.beta2 * self.v + (1.0 - self.beta2) * g * g;
        let mh = self.m / (1.0 - self.beta1.powi(self.t as i32));
        let vh = self.v / (1.0 - self.beta2.powi(self.t as i32));
        self.log_step += self.lr * mh / (vh.sqrt() + self.eps);
        mh
    }
    pub fn step(&self) -> f64 {
        self.log_step.exp()
    }
}
