//! Reference models ("boring on purpose"): plain scalar Rust, no dependency on nuts-rs internals.

/// Closed-form ESH momentum update on the unit sphere (Steeg & Gallagher 2021), written in the
/// hyperbolic form:  p' = (p + e (sinh d + (p.e)(cosh d - 1))) / (cosh d + (p.e) sinh d),
/// dKE = (n-1) ln(cosh d + (p.e) sinh d),   e = g/|g|, d = step |g| / (n-1).
pub fn esh_reference(grad: &[f64], mom: &[f64], step: f64) -> (Vec<f64>, f64) {
    let n = grad.len();
    let gn = grad.iter().map(|g| g * g).sum::<f64>().sqrt();
    let e: Vec<f64> = grad.iter().map(|g| g / gn).collect();
    let ue: f64 = mom.iter().zip(&e).map(|(p, e)| p * e).sum();
    let d = step * gn / (n as f64 - 1.0);
    let (sh, ch) = (d.sinh(), d.cosh());
    let denom = ch + ue * sh;
    let mut out: Vec<f64> = (0..n)
        .map(|i| (mom[i] + e[i] * (sh + ue * (ch - 1.0))) / denom)
        .collect();
    let nrm = out.iter().map(|x| x * x).sum::<f64>().sqrt();
    out.iter_mut().for_each(|x| *x /= nrm);
    (out, (n as f64 - 1.0) * denom.ln())
}
