//! Reference models ("boring on purpose"): plain scalar Rust, no dependency on nuts-rs internals.

/// Closed-form ESH momentum update on the unit sphere (Steeg & Gallagher 2021), written in the
/// hyperbolic form:  p' = (p + e (sinh d + (p.e)(cosh d - 1))) / (cosh d + (p.e) sinh d),
/// dKE = (n-1) ln(cosh d + (p.e) sinh d),   e = g/|g|, d = step |g| / (n-1).
pub fn esh_reference(grad: &[f64], mom: &[f64], step: f64) -> (Vec<f64>, f64) {
    let n = grad.len();
    let gn = grad.iter().map(|g| g * g).sum::<f64>().sqrt();
    // sinh is odd and cosh even: a negative step is the positive step along -e
    let sgn = if step < 0.0 { -1.0 } else { 1.0 };
    let e: Vec<f64> = grad.iter().map(|g| sgn * g / gn).collect();
    let ue: f64 = mom.iter().zip(&e).map(|(p, e)| p * e).sum();
    let d = step.abs() * gn / (n as f64 - 1.0);
    // everything scaled by exp(-d) so that large d does not overflow
    let ed = (-d).exp();
    let z = ed * ed;
    let sh = 0.5 * (1.0 - z); // sinh d * exp(-d)
    let ch = 0.5 * (1.0 + z); // cosh d * exp(-d)
    let denom = ch + ue * sh;
    let mut out: Vec<f64> = (0..n)
        .map(|i| (mom[i] * ed + e[i] * (sh + ue * (ch - ed))) / denom)
        .collect();
    let nrm = out.iter().map(|x| x * x).sum::<f64>().sqrt();
    out.iter_mut().for_each(|x| *x /= nrm);
    (out, (n as f64 - 1.0) * (d + denom.ln()))
}

/// Nesterov dual averaging as published (Hoffman & Gelman 2014, with the log-step clamp and the
/// weighted average of the iterates documented by nuts-rs): R-dualavg.
#[derive(Clone, Debug)]
pub struct RefDualAverage {
    pub log_step: f64,
    pub log_step_bar: f64,
    pub hbar: f64,
    pub mu: f64,
    pub count: u64,
    pub k: f64,
    pub t0: f64,
    pub gamma: f64,
    pub max_step: f64,
}

impl RefDualAverage {
    pub fn new(k: f64, t0: f64, gamma: f64, max_step: f64, initial_step: f64) -> Self {
        RefDualAverage {
            log_step: initial_step.ln(),
            log_step_bar: initial_step.ln(),
            hbar: 0.0,
            mu: (10.0 * initial_step).ln(),
            count: 1,
            k,
            t0,
            gamma,
            max_step,
        }
    }
    pub fn advance(&mut self, accept: f64, target: f64) {
        let m = self.count as f64;
        let w = 1.0 / (m + self.t0);
        self.hbar = (1.0 - w) * self.hbar + w * (target - accept);
        let x = self.mu - m.sqrt() / self.gamma * self.hbar;
        self.log_step = x.min(self.max_step.ln());
        let eta = m.powf(-self.k);
        self.log_step_bar = eta * self.log_step + (1.0 - eta) * self.log_step_bar;
        self.count += 1;
    }
    pub fn step(&self) -> f64 {
        self.log_step.exp()
    }
    pub fn step_bar(&self) -> f64 {
        self.log_step_bar.exp()
    }
}

/// Adam on the log step size, "gradient" = accept - target (R-adam).
#[derive(Clone, Debug)]
pub struct RefAdam {
    pub log_step: f64,
    pub m: f64,
    pub v: f64,
    pub t: u64,
    pub beta1: f64,
    pub beta2: f64,
    pub eps: f64,
    pub lr: f64,
}

impl RefAdam {
    pub fn new(beta1: f64, beta2: f64, eps: f64, lr: f64, initial_step: f64) -> Self {
        RefAdam { log_step: initial_step.ln(), m: 0.0, v: 0.0, t: 0, beta1, beta2, eps, lr }
    }
    pub fn advance(&mut self, accept: f64, target: f64) -> f64 {
        let g = accept - target;
        self.t += 1;
        self.m = self.beta1 * self.m + (1.0 - self.beta1) * g;
        self.v = self.beta2 * self.v + (1.0 - self.beta2) * g * g;
        let mh = self.m / (1.0 - self.beta1.powi(self.t as i32));
        let vh = self.v / (1.0 - self.beta2.powi(self.t as i32));
        self.log_step += self.lr * mh / (vh.sqrt() + self.eps);
        mh
    }
    pub fn step(&self) -> f64 {
        self.log_step.exp()
    }
}

// ---------------------------------------------------------------------------------------------
// dense linear algebra (row-major d x d), boring on purpose
// ---------------------------------------------------------------------------------------------

#[derive(Clone, Debug)]
pub struct Dense {
    pub d: usize,
    pub a: Vec<f64>,
}

impl Dense {
    pub fn identity(d: usize) -> Dense {
        let mut a = vec![0.0; d * d];
        for i in 0..d {
            a[i * d + i] = 1.0;
        }
        Dense { d, a }
    }
    pub fn diag(v: &[f64]) -> Dense {
        let d = v.len();
        let mut m = Dense::identity(d);
        for i in 0..d {
            m.a[i * d + i] = v[i];
        }
        m
    }
    pub fn at(&self, i: usize, j: usize) -> f64 {
        self.a[i * self.d + j]
    }
    pub fn mul_vec(&self, x: &[f64]) -> Vec<f64> {
        (0..self.d)
            .map(|i| (0..self.d).map(|j| self.at(i, j) * x[j]).sum())
            .collect()
    }
    pub fn tmul_vec(&self, x: &[f64]) -> Vec<f64> {
        (0..self.d)
            .map(|j| (0..self.d).map(|i| self.at(i, j) * x[i]).sum())
            .collect()
    }
    pub fn mul(&self, o: &Dense) -> Dense {
        let d = self.d;
        let mut a = vec![0.0; d * d];
        for i in 0..d {
            for k in 0..d {
                let v = self.at(i, k);
                for j in 0..d {
                    a[i * d + j] += v * o.at(k, j);
                }
            }
        }
        Dense { d, a }
    }
    pub fn transpose(&self) -> Dense {
        let d = self.d;
        let mut a = vec![0.0; d * d];
        for i in 0..d {
            for j in 0..d {
                a[j * d + i] = self.at(i, j);
            }
        }
        Dense { d, a }
    }
    /// LU with partial pivoting: returns (solution of A x = b, ln|det A|)
    pub fn solve(&self, b: &[f64]) -> (Vec<f64>, f64) {
        let d = self.d;
        let mut a = self.a.clone();
        let mut x = b.to_vec();
        let mut logdet = 0.0;
        for c in 0..d {
            let mut piv = c;
            for r in c + 1..d {
                if a[r * d + c].abs() > a[piv * d + c].abs() {
                    piv = r;
                }
            }
            if piv != c {
                for j in 0..d {
                    a.swap(c * d + j, piv * d + j);
                }
                x.swap(c, piv);
            }
            let p = a[c * d + c];
            logdet += p.abs().ln();
            for r in c + 1..d {
                let f = a[r * d + c] / p;
                if f != 0.0 {
                    for j in c..d {
                        a[r * d + j] -= f * a[c * d + j];
                    }
                    x[r] -= f * x[c];
                }
            }
        }
        for c in (0..d).rev() {
            let mut s = x[c];
            for j in c + 1..d {
                s -= a[c * d + j] * x[j];
            }
            x[c] = s / a[c * d + c];
        }
        (x, logdet)
    }
    pub fn logabsdet(&self) -> f64 {
        self.solve(&vec![0.0; self.d]).1
    }
}

/// determinant of a small general matrix (row-major n x n) by LU
pub fn det(n: usize, m: &[f64]) -> f64 {
    let mut a = m.to_vec();
    let mut det = 1.0;
    for c in 0..n {
        let mut piv = c;
        for r in c + 1..n {
            if a[r * n + c].abs() > a[piv * n + c].abs() {
                piv = r;
            }
        }
        if a[piv * n + c] == 0.0 {
            return 0.0;
        }
        if piv != c {
            for j in 0..n {
                a.swap(c * n + j, piv * n + j);
            }
            det = -det;
        }
        let p = a[c * n + c];
        det *= p;
        for r in c + 1..n {
            let f = a[r * n + c] / p;
            for j in c..n {
                a[r * n + j] -= f * a[c * n + j];
            }
        }
    }
    det
}

/// Textbook leapfrog in the original space for H = -logp(x) + 1/2 p' Minv p.
/// `grad` returns the gradient of logp at x.
pub fn leapfrog_x(
    minv: &Dense,
    x: &[f64],
    p: &[f64],
    eps: f64,
    grad: &mut dyn FnMut(&[f64]) -> Vec<f64>,
) -> (Vec<f64>, Vec<f64>) {
    let d = x.len();
    let g0 = grad(x);
    let ph: Vec<f64> = (0..d).map(|i| p[i] + 0.5 * eps * g0[i]).collect();
    let v = minv.mul_vec(&ph);
    let x1: Vec<f64> = (0..d).map(|i| x[i] + eps * v[i]).collect();
    let g1 = grad(&x1);
    let p1: Vec<f64> = (0..d).map(|i| ph[i] + 0.5 * eps * g1[i]).collect();
    (x1, p1)
}
