//! Driving whole chains through the public `Settings` / `Chain` API (all six presets), with panics
//! caught per call and every draw's position, `Progress` and statistics recorded.

use std::panic::{catch_unwind, AssertUnwindSafe};

use nuts_rs::verif::StatsDims;
use nuts_rs::{
    Chain, CpuMath, DiagMclmcSettings, DiagNutsSettings, FlowMclmcSettings, FlowNutsSettings,
    KineticEnergyKind, LowRankMclmcSettings, LowRankNutsSettings, Math, MclmcTrajectoryKind,
    Settings, StepSizeAdaptMethod, Storable,
};
use rand::rngs::ChaCha8Rng;
use rand::SeedableRng;

use super::models::Dens;
use super::stats::{to_row, StatRow};

#[derive(Clone, Copy, Debug, PartialEq, Eq, PartialOrd, Ord, Hash)]
pub enum Preset {
    DiagNuts,
    LowRankNuts,
    FlowNuts,
    DiagMclmc,
    LowRankMclmc,
    FlowMclmc,
}

impl Preset {
    pub const ALL: [Preset; 6] = [
        Preset::DiagNuts,
        Preset::LowRankNuts,
        Preset::FlowNuts,
        Preset::DiagMclmc,
        Preset::LowRankMclmc,
        Preset::FlowMclmc,
    ];
    pub const NUTS: [Preset; 3] = [Preset::DiagNuts, Preset::LowRankNuts, Preset::FlowNuts];
    pub fn is_nuts(&self) -> bool {
        matches!(self, Preset::DiagNuts | Preset::LowRankNuts | Preset::FlowNuts)
    }
    pub fn is_flow(&self) -> bool {
        matches!(self, Preset::FlowNuts | Preset::FlowMclmc)
    }
}

/// Option alphabet shared by several checks; applied to whichever preset understands the field.
#[derive(Clone, Debug)]
pub struct Tweaks {
    pub num_tune: u64,
    pub num_draws: u64,
    pub maxdepth: Option<u64>,
    pub mindepth: Option<u64>,
    pub extra_doublings: Option<u64>,
    pub max_energy_error: Option<f64>,
    pub target_integration_time: Option<f64>,
    pub kinetic: Option<KineticEnergyKind>,
    pub store_gradient: bool,
    pub store_unconstrained: bool,
    pub store_transformed: bool,
    pub store_divergences: bool,
    pub store_mass_matrix: bool,
    pub use_grad_based_estimate: Option<bool>,
    pub method: Option<StepSizeAdaptMethod>,
    pub jitter: Option<Option<f64>>,
    /// `dual_average.max_step_size`
    pub max_step_size: Option<f64>,
    pub step_size_window: Option<f64>,
    pub early_window: Option<f64>,
    pub switch_freq: Option<u64>,
    pub early_switch_freq: Option<u64>,
    pub update_freq: Option<u64>,
    pub window_growth: Option<f64>,
    // mclmc
    pub mclmc_step_size: Option<f64>,
    pub mclmc_length: Option<f64>,
    pub subsample_frequency: Option<f64>,
    pub dynamic_step_size: Option<bool>,
    pub trajectory_kind: Option<MclmcTrajectoryKind>,
    pub switch_fraction: Option<f64>,
}

impl Default for Tweaks {
    fn default() -> Self {
        Tweaks {
            num_tune: 20,
            num_draws: 5,
            maxdepth: None,
            mindepth: None,
            extra_doublings: None,
            max_energy_error: None,
            target_integration_time: None,
            kinetic: None,
            store_gradient: false,
            store_unconstrained: false,
            store_transformed: false,
            store_divergences: false,
            store_mass_matrix: false,
            use_grad_based_estimate: None,
            method: None,
            jitter: None,
            max_step_size: None,
            step_size_window: None,
            early_window: None,
            switch_freq: None,
            early_switch_freq: None,
            update_freq: None,
            window_growth: None,
            mclmc_step_size: None,
            mclmc_length: None,
            subsample_frequency: None,
            dynamic_step_size: None,
            trajectory_kind: None,
            switch_fraction: None,
        }
    }
}

macro_rules! apply_euclid_adapt {
    ($s:expr, $t:expr) => {{
        if let Some(v) = $t.step_size_window {
            $s.adapt_options.step_size_window = v;
        }
        if let Some(v) = $t.early_window {
            $s.adapt_options.early_window = v;
        }
        if let Some(v) = $t.switch_freq {
            $s.adapt_options.mass_matrix_switch_freq = v;
        }
        if let Some(v) = $t.early_switch_freq {
            $s.adapt_options.early_mass_matrix_switch_freq = v;
        }
        if let Some(v) = $t.update_freq {
            $s.adapt_options.mass_matrix_update_freq = v;
        }
        if let Some(v) = $t.window_growth {
            $s.adapt_options.mass_matrix_window_growth = v;
        }
        if let Some(v) = $t.method {
            $s.adapt_options.step_size_settings.adapt_options.method = v;
        }
        if let Some(v) = $t.jitter {
            $s.adapt_options.step_size_settings.jitter = v;
        }
        if let Some(v) = $t.max_step_size {
            $s.adapt_options.step_size_settings.adapt_options.dual_average.max_step_size = v;
        }
        $s.adapt_options.mass_matrix_options.store_mass_matrix = $t.store_mass_matrix;
    }};
}

macro_rules! apply_nuts_common {
    ($s:expr, $t:expr) => {{
        $s.num_tune = $t.num_tune;
        $s.num_draws = $t.num_draws;
        if let Some(v) = $t.maxdepth {
            $s.maxdepth = v;
        }
        if let Some(v) = $t.extra_doublings {
            $s.extra_doublings = v;
        }
        if let Some(v) = $t.mindepth {
            $s.mindepth = v;
        }
        if let Some(v) = $t.max_energy_error {
            $s.max_energy_error = v;
        }
        $s.target_integration_time = $t.target_integration_time;
        if let Some(v) = $t.kinetic {
            $s.trajectory_kind = v;
        }
        $s.store_gradient = $t.store_gradient;
        $s.store_unconstrained = $t.store_unconstrained;
        $s.store_transformed = $t.store_transformed;
        $s.store_divergences = $t.store_divergences;
    }};
}

macro_rules! apply_mclmc_common {
    ($s:expr, $t:expr) => {{
        $s.num_tune = $t.num_tune;
        $s.num_draws = $t.num_draws;
        if let Some(v) = $t.max_energy_error {
            $s.max_energy_error = v;
        }
        $s.store_gradient = $t.store_gradient;
        $s.store_unconstrained = $t.store_unconstrained;
        $s.store_transformed = $t.store_transformed;
        $s.store_divergences = $t.store_divergences;
        if let Some(v) = $t.mclmc_step_size {
            $s.step_size = v;
        }
        if let Some(v) = $t.mclmc_length {
            $s.momentum_decoherence_length = v;
        }
        if let Some(v) = $t.subsample_frequency {
            $s.subsample_frequency = v;
        }
        if let Some(v) = $t.dynamic_step_size {
            $s.dynamic_step_size = v;
        }
        if let Some(v) = $t.trajectory_kind {
            $s.trajectory_kind = v;
        }
        if let Some(v) = $t.switch_fraction {
            $s.trajectory_switch_fraction = v;
        }
    }};
}

pub fn diag_nuts(t: &Tweaks) -> DiagNutsSettings {
    let mut s = DiagNutsSettings::default();
    apply_nuts_common!(s, t);
    apply_euclid_adapt!(s, t);
    if let Some(v) = t.use_grad_based_estimate {
        s.adapt_options.mass_matrix_options.use_grad_based_estimate = v;
    }
    s
}
pub fn lowrank_nuts(t: &Tweaks) -> LowRankNutsSettings {
    let mut s = LowRankNutsSettings::default();
    apply_nuts_common!(s, t);
    apply_euclid_adapt!(s, t);
    s
}
pub fn flow_nuts(t: &Tweaks) -> FlowNutsSettings {
    let mut s = FlowNutsSettings::default();
    apply_nuts_common!(s, t);
    if let Some(v) = t.step_size_window {
        s.adapt_options.step_size_window = v;
    }
    if let Some(v) = t.method {
        s.adapt_options.step_size_settings.adapt_options.method = v;
    }
    if let Some(v) = t.jitter {
        s.adapt_options.step_size_settings.jitter = v;
    }
    if let Some(v) = t.max_step_size {
        s.adapt_options.step_size_settings.adapt_options.dual_average.max_step_size = v;
    }
    if let Some(v) = t.update_freq {
        s.adapt_options.transform_update_freq = v.max(1);
    }
    s
}
pub fn diag_mclmc(t: &Tweaks) -> DiagMclmcSettings {
    let mut s = DiagMclmcSettings::default();
    apply_mclmc_common!(s, t);
    apply_euclid_adapt!(s, t);
    if let Some(v) = t.use_grad_based_estimate {
        s.adapt_options.mass_matrix_options.use_grad_based_estimate = v;
    }
    s
}
pub fn lowrank_mclmc(t: &Tweaks) -> LowRankMclmcSettings {
    let mut s = LowRankMclmcSettings::default();
    apply_mclmc_common!(s, t);
    apply_euclid_adapt!(s, t);
    s
}
pub fn flow_mclmc(t: &Tweaks) -> FlowMclmcSettings {
    let mut s = FlowMclmcSettings::default();
    apply_mclmc_common!(s, t);
    if let Some(v) = t.method {
        s.adapt_options.step_size_settings.adapt_options.method = v;
    }
    if let Some(v) = t.step_size_window {
        s.adapt_options.step_size_window = v;
    }
    if let Some(v) = t.jitter {
        s.adapt_options.step_size_settings.jitter = v;
    }
    if let Some(v) = t.max_step_size {
        s.adapt_options.step_size_settings.adapt_options.dual_average.max_step_size = v;
    }
    if let Some(v) = t.update_freq {
        s.adapt_options.transform_update_freq = v.max(1);
    }
    s
}

/// Run `$body` with `$s` bound to the concrete settings value of the preset.
#[macro_export]
macro_rules! with_settings {
    ($preset:expr, $tweaks:expr, |$s:ident| $body:expr) => {
        match $preset {
            $crate::common::runner::Preset::DiagNuts => {
                let $s = $crate::common::runner::diag_nuts($tweaks);
                $body
            }
            $crate::common::runner::Preset::LowRankNuts => {
                let $s = $crate::common::runner::lowrank_nuts($tweaks);
                $body
            }
            $crate::common::runner::Preset::FlowNuts => {
                let $s = $crate::common::runner::flow_nuts($tweaks);
                $body
            }
            $crate::common::runner::Preset::DiagMclmc => {
                let $s = $crate::common::runner::diag_mclmc($tweaks);
                $body
            }
            $crate::common::runner::Preset::LowRankMclmc => {
                let $s = $crate::common::runner::lowrank_mclmc($tweaks);
                $body
            }
            $crate::common::runner::Preset::FlowMclmc => {
                let $s = $crate::common::runner::flow_mclmc($tweaks);
                $body
            }
        }
    };
}

#[derive(Clone, Debug)]
pub struct DrawRec {
    pub pos: Vec<f64>,
    pub draw: u64,
    pub chain: u64,
    pub diverging: bool,
    pub tuning: bool,
    pub step_size: f64,
    pub num_steps: u64,
    pub stats: StatRow,
    pub data: StatRow,
    /// density evaluations performed up to and including this draw
    pub n_eval_after: u64,
}

#[derive(Clone, Debug)]
pub enum RunEnd {
    Completed,
    NewChainPanicked(String),
    SetPositionErr(String),
    SetPositionPanicked(String),
    DrawErr(usize, String),
    DrawPanicked(usize, String),
}

pub fn panic_msg(p: &Box<dyn std::any::Any + Send>) -> String {
    if let Some(s) = p.downcast_ref::<&str>() {
        s.to_string()
    } else if let Some(s) = p.downcast_ref::<String>() {
        s.clone()
    } else {
        "<non-string panic payload>".to_string()
    }
}

pub struct RunResult {
    pub draws: Vec<DrawRec>,
    pub end: RunEnd,
    pub n_eval_after_init: u64,
}

/// new_chain(chain=0) with ChaCha8(seed), set_position(start), then `n` expanded draws.
pub fn run_chain<S: Settings>(settings: &S, dens: Dens, seed: u64, start: &[f64], n: usize) -> RunResult {
    run_chain_retry(settings, dens, seed, start, n, 0)
}

thread_local! {
    /// number of failed set_position attempts of the last `run_chain_retry` on this thread
    pub static LAST_INIT_RETRIES: std::cell::Cell<usize> = const { std::cell::Cell::new(0) };
}

/// like `run_chain`, but a set_position that fails with an error (not a panic) is retried on the
/// same chain object up to `retries` times with a slightly shifted start point - what the parallel
/// sampler's initialisation loop does with fresh initial points
pub fn run_chain_retry<S: Settings>(settings: &S, dens: Dens, seed: u64, start: &[f64], n: usize, retries: usize) -> RunResult {
    let log = dens.log.clone();
    let mut rng = ChaCha8Rng::seed_from_u64(seed);
    let math = CpuMath::new(dens);
    let chain = catch_unwind(AssertUnwindSafe(|| settings.new_chain(0, math, &mut rng)));
    let mut chain = match chain {
        Ok(c) => c,
        Err(p) => {
            return RunResult {
                draws: vec![],
                end: RunEnd::NewChainPanicked(panic_msg(&p)),
                n_eval_after_init: 0,
            }
        }
    };
    let mut attempt = 0usize;
    loop {
        let st: Vec<f64> = start.iter().map(|x| x + 0.01 * attempt as f64).collect();
        match catch_unwind(AssertUnwindSafe(|| chain.set_position(&st))) {
            Ok(Ok(())) => {
                LAST_INIT_RETRIES.with(|c| c.set(attempt));
                break;
            }
            Ok(Err(e)) => {
                LAST_INIT_RETRIES.with(|c| c.set(attempt));
                // an unrecoverable error ends the chain in the sampler's loop as well
                let fatal = format!("{e:#}").contains("Unrecoverable") || format!("{e:?}").contains("LogpFailure");
                if attempt < retries && !fatal {
                    attempt += 1;
                    continue;
                }
                return RunResult {
                    draws: vec![],
                    end: RunEnd::SetPositionErr(format!("{e:#}")),
                    n_eval_after_init: log.borrow().n_eval,
                };
            }
            Err(p) => {
                return RunResult {
                    draws: vec![],
                    end: RunEnd::SetPositionPanicked(panic_msg(&p)),
                    n_eval_after_init: log.borrow().n_eval,
                }
            }
        }
    }
    let n_eval_after_init = log.borrow().n_eval;
    let mut draws = Vec::with_capacity(n);
    for k in 0..n {
        let r = catch_unwind(AssertUnwindSafe(|| chain.expanded_draw()));
        match r {
            Ok(Ok((pos, mut data, mut stats, info))) => {
                let math = chain.math();
                let dims = StatsDims::from(&*math);
                let srow = to_row(stats.get_all(&dims));
                let drow = to_row(data.get_all(&*math));
                draws.push(DrawRec {
                    pos: pos.to_vec(),
                    draw: info.draw,
                    chain: info.chain,
                    diverging: info.diverging,
                    tuning: info.tuning,
                    step_size: info.step_size,
                    num_steps: info.num_steps,
                    stats: srow,
                    data: drow,
                    n_eval_after: log.borrow().n_eval,
                });
            }
            Ok(Err(e)) => {
                return RunResult {
                    draws,
                    end: RunEnd::DrawErr(k, format!("{e:#}")),
                    n_eval_after_init,
                }
            }
            Err(p) => {
                return RunResult {
                    draws,
                    end: RunEnd::DrawPanicked(k, panic_msg(&p)),
                    n_eval_after_init,
                }
            }
        }
    }
    RunResult {
        draws,
        end: RunEnd::Completed,
        n_eval_after_init,
    }
}

/// schema of a preset for a given density
pub struct Schema {
    pub names: Vec<String>,
    pub types: Vec<(String, nuts_rs::ItemType)>,
    pub dims: Vec<(String, Vec<String>)>,
    pub event_dims: Vec<(String, Option<String>)>,
    pub dim_sizes: std::collections::HashMap<String, u64>,
}

pub fn schema_of<S: Settings>(settings: &S, dens: Dens) -> Schema {
    let math = CpuMath::new(dens);
    Schema {
        names: settings.stat_names(&math),
        types: settings.stat_types(&math),
        dims: settings.stat_dims_all(&math),
        event_dims: settings.stat_event_dims(&math),
        dim_sizes: settings.stat_dim_sizes(&math),
    }
}

#[allow(dead_code)]
pub fn dim_of(m: &impl Math) -> usize {
    m.dim()
}
