//! Helpers to read `Storable::get_all` output.

use nuts_rs::Value;

pub type StatRow = Vec<(String, Option<Value>)>;

pub fn to_row(v: Vec<(&str, Option<Value>)>) -> StatRow {
    v.into_iter().map(|(k, v)| (k.to_string(), v)).collect()
}

pub fn get<'a>(row: &'a StatRow, name: &str) -> Option<&'a Value> {
    row.iter()
        .find(|(k, _)| k == name)
        .and_then(|(_, v)| v.as_ref())
}

pub fn has_name(row: &StatRow, name: &str) -> bool {
    row.iter().any(|(k, _)| k == name)
}

pub fn f64_of(row: &StatRow, name: &str) -> Option<f64> {
    match get(row, name)? {
        Value::ScalarF64(x) => Some(*x),
        Value::ScalarF32(x) => Some(*x as f64),
        Value::ScalarU64(x) => Some(*x as f64),
        Value::ScalarI64(x) => Some(*x as f64),
        _ => None,
    }
}

pub fn u64_of(row: &StatRow, name: &str) -> Option<u64> {
    match get(row, name)? {
        Value::ScalarU64(x) => Some(*x),
        Value::ScalarI64(x) => Some(*x as u64),
        _ => None,
    }
}

pub fn i64_of(row: &StatRow, name: &str) -> Option<i64> {
    match get(row, name)? {
        Value::ScalarI64(x) => Some(*x),
        Value::ScalarU64(x) => Some(*x as i64),
        _ => None,
    }
}

pub fn bool_of(row: &StatRow, name: &str) -> Option<bool> {
    match get(row, name)? {
        Value::ScalarBool(x) => Some(*x),
        _ => None,
    }
}

pub fn vec_of(row: &StatRow, name: &str) -> Option<Vec<f64>> {
    match get(row, name)? {
        Value::F64(x) => Some(x.clone()),
        _ => None,
    }
}

pub fn str_of(row: &StatRow, name: &str) -> Option<String> {
    match get(row, name)? {
        Value::ScalarString(x) => Some(x.clone()),
        _ => None,
    }
}

/// (variant name, length) of a value, for schema checks
pub fn value_shape(v: &Value) -> (&'static str, usize, bool) {
    match v {
        Value::U64(x) => ("U64", x.len(), false),
        Value::I64(x) => ("I64", x.len(), false),
        Value::F64(x) => ("F64", x.len(), false),
        Value::F32(x) => ("F32", x.len(), false),
        Value::Bool(x) => ("Bool", x.len(), false),
        Value::ScalarString(_) => ("String", 1, true),
        Value::DateTime64(_, x) => ("DateTime64", x.len(), false),
        Value::TimeDelta64(_, x) => ("TimeDelta64", x.len(), false),
        Value::ScalarU64(_) => ("U64", 1, true),
        Value::ScalarI64(_) => ("I64", 1, true),
        Value::ScalarF64(_) => ("F64", 1, true),
        Value::ScalarF32(_) => ("F32", 1, true),
        Value::ScalarBool(_) => ("Bool", 1, true),
        Value::Strings(x) => ("String", x.len(), false),
    }
}
