//! R-nuts: reference multinomial NUTS (Betancourt 2017 / Stan) over a *recorded* trajectory.
//!
//! The implementation is driven with a scripted RNG; a recording collector captures every leapfrog
//! (index, whitened position, velocity, energy, divergence). The reference takes the same answer
//! vector (directions, accept decisions) and recomputes from the recorded states which tree is
//! built, every U-turn check, every tree weight, every accept probability, where doubling stops,
//! and which index is selected. It never integrates itself (the integrator is C02's business).

use std::cell::RefCell;
use std::collections::BTreeMap;
use std::convert::Infallible;
use std::rc::Rc;

use mc_core::Ctx;
use nuts_rs::verif::{self as nv, Collector, NutsOptions, Point, SampleInfo, State, TransformedPoint};
use nuts_rs::Math;
use rand::rand_core::TryRng;

use super::rng::{bernoulli_threshold, DIR_BACKWARD, DIR_FORWARD};

#[derive(Clone, Debug)]
pub struct St {
    pub x: Vec<f64>,
    pub y: Vec<f64>,
    pub v: Vec<f64>,
    pub energy: f64,
    pub logp: f64,
    pub diverged: bool,
}

#[derive(Clone, Debug, Default)]
pub struct Recorded {
    /// leapfrogs in execution order: (from index, to index)
    pub leaps: Vec<(i64, i64)>,
    pub states: BTreeMap<i64, St>,
    pub init_seen: bool,
    pub drawn_index: Option<i64>,
    pub drawn_x: Option<Vec<f64>>,
}

pub struct RecCollector {
    pub rec: Rc<RefCell<Recorded>>,
}

fn st_of<M: Math>(math: &mut M, s: &State<M, TransformedPoint<M>>, diverged: bool) -> St {
    let p = s.point();
    St {
        x: math.box_array(p.position()).to_vec(),
        y: nv::point_transformed_position(p, math).to_vec(),
        v: nv::point_velocity(p, math).to_vec(),
        energy: p.energy(),
        logp: p.logp(),
        diverged,
    }
}

impl<M: Math> Collector<M, TransformedPoint<M>> for RecCollector {
    fn register_leapfrog(
        &mut self,
        math: &mut M,
        start: &State<M, TransformedPoint<M>>,
        end: &State<M, TransformedPoint<M>>,
        divergence_info: Option<&nuts_rs::DivergenceInfo>,
    ) {
        let from = start.index_in_trajectory();
        let mut r = self.rec.borrow_mut();
        let to = match divergence_info {
            // a step that failed on the energy test has a valid end index; a density error has not
            Some(info) => info.end_idx_in_trajectory.unwrap_or(i64::MAX),
            None => end.index_in_trajectory(),
        };
        let st = st_of(math, end, divergence_info.is_some());
        r.leaps.push((from, to));
        // (a failed density evaluation is stored under i64::MAX together with its origin)
        r.states.insert(to, st);
    }
    fn register_init(&mut self, math: &mut M, state: &State<M, TransformedPoint<M>>, _o: &NutsOptions) {
        let mut r = self.rec.borrow_mut();
        *r = Recorded::default();
        r.init_seen = true;
        let st = st_of(math, state, false);
        r.states.insert(0, st);
    }
    fn register_draw(&mut self, math: &mut M, state: &State<M, TransformedPoint<M>>, _info: &SampleInfo) {
        let mut r = self.rec.borrow_mut();
        r.drawn_index = Some(state.index_in_trajectory());
        r.drawn_x = Some(math.box_array(state.point().position()).to_vec());
    }
}

// ---------------------------------------------------------------------------------------------
// RNG whose answers are choice points of the explorer
// ---------------------------------------------------------------------------------------------

#[derive(Clone, Debug, PartialEq)]
pub enum Ans {
    /// true = Forward
    Dir(bool),
    /// true = accept
    Accept(bool),
}

pub struct CtxRng {
    ctx: *mut Ctx,
    pub answers: Rc<RefCell<Vec<Ans>>>,
    /// for every accept decision: the explorer's choice vector before the decision
    pub accept_keys: Rc<RefCell<Vec<Vec<u32>>>>,
    /// probing pass: reference probability of the accept decision reached by a choice prefix; the
    /// decision is then answered with a value just below (accept) / just above (reject) p * 2^64
    pub probe_map: Option<BTreeMap<Vec<u32>, f64>>,
}

impl CtxRng {
    /// SAFETY: the RNG must not outlive the `Ctx` it points to (it is created and dropped inside
    /// one execution of the explorer's body).
    pub fn new(ctx: &mut Ctx, _mode: AcceptMode) -> CtxRng {
        CtxRng {
            ctx: ctx as *mut Ctx,
            answers: Rc::new(RefCell::new(Vec::new())),
            accept_keys: Rc::new(RefCell::new(Vec::new())),
            probe_map: None,
        }
    }
}

#[derive(Clone, Debug)]
pub enum AcceptMode {
    Extreme,
}

pub const PROBE_DELTA: f64 = 1e-9;

impl TryRng for CtxRng {
    type Error = Infallible;
    fn try_next_u32(&mut self) -> Result<u32, Infallible> {
        let c = unsafe { &mut *self.ctx }.choose_free(2);
        let fwd = c == 0;
        self.answers.borrow_mut().push(Ans::Dir(fwd));
        Ok(if fwd { DIR_FORWARD } else { DIR_BACKWARD })
    }
    fn try_next_u64(&mut self) -> Result<u64, Infallible> {
        let ctx = unsafe { &mut *self.ctx };
        let key = ctx.choices();
        let c = ctx.choose(2);
        let accept = c == 0;
        self.answers.borrow_mut().push(Ans::Accept(accept));
        self.accept_keys.borrow_mut().push(key.clone());
        let p = self.probe_map.as_ref().and_then(|m| m.get(&key).copied());
        Ok(match p {
            None => {
                if accept {
                    0
                } else {
                    u64::MAX
                }
            }
            Some(p) => {
                if accept {
                    bernoulli_threshold(p * (1.0 - PROBE_DELTA)).saturating_sub(1)
                } else {
                    let q = p * (1.0 + PROBE_DELTA);
                    if q >= 1.0 {
                        u64::MAX
                    } else {
                        bernoulli_threshold(q)
                    }
                }
            }
        })
    }
    fn try_fill_bytes(&mut self, dst: &mut [u8]) -> Result<(), Infallible> {
        for (i, b) in dst.iter_mut().enumerate() {
            *b = (i * 37 + 11) as u8;
        }
        Ok(())
    }
}

// ---------------------------------------------------------------------------------------------
// the reference
// ---------------------------------------------------------------------------------------------

#[derive(Clone, Debug, PartialEq)]
pub enum Stop {
    Turning,
    SubtreeTurning,
    Diverging,
    MaxDepth,
    ZeroDim,
}

#[derive(Clone, Debug)]
pub struct RefResult {
    pub selected: i64,
    pub depth: u64,
    pub stop: Stop,
    /// final accepted tree
    pub left: i64,
    pub right: i64,
    /// leapfrog target indices in the order the reference performs them
    pub leaps: Vec<i64>,
    /// probability of every accept decision that consulted the RNG, in order
    pub accept_probs: Vec<f64>,
    /// probability of this execution's answer vector (directions 1/2 each, accepts p or 1-p)
    pub prob: f64,
    /// smallest relative margin of any float comparison that decided a branch
    pub min_margin: f64,
    /// number of U-turn checks performed
    pub uturn_checks: u64,
    /// answers consumed
    pub consumed: usize,
    pub log_weight_total: f64,
}

#[derive(Debug)]
pub enum RefErr {
    /// the implementation never visited an index the reference needs (it stopped too early or
    /// built a different tree)
    MissingState(i64),
    AnswerMismatch(String),
    /// the reference and the implementation parted ways after a float comparison whose margin is
    /// below the conditioning threshold (e.g. tree weights equal to the last bit: the reference's
    /// own rounding decides whether the accept is forced): nothing can be judged
    IllConditioned(f64, String),
}

struct Tree {
    left: i64,
    right: i64,
    draw: i64,
    log_w: f64,
}

pub fn logaddexp(a: f64, b: f64) -> f64 {
    if a == f64::NEG_INFINITY {
        return b;
    }
    if b == f64::NEG_INFINITY {
        return a;
    }
    let m = a.max(b);
    m + ((a - m).exp() + (b - m).exp()).ln()
}

struct Run<'a> {
    rec: &'a Recorded,
    answers: &'a [Ans],
    pos: usize,
    e0: f64,
    max_energy_error: f64,
    out: RefResult,
    /// copy of the smallest margin that survives an early error return
    sink: &'a std::cell::Cell<f64>,
}

enum Sub {
    Ok(Tree),
    Turning,
    Diverging,
}

impl<'a> Run<'a> {
    fn state(&self, i: i64) -> Result<&'a St, RefErr> {
        if let Some(s) = self.rec.states.get(&i) {
            return Ok(s);
        }
        // the last leapfrog ended in a density error: its end state has no index of its own
        if let Some((from, to)) = self.rec.leaps.last() {
            if *to == i64::MAX && (from - i).abs() == 1 {
                if let Some(s) = self.rec.states.get(&i64::MAX) {
                    return Ok(s);
                }
            }
        }
        Err(RefErr::MissingState(i))
    }
    fn margin(&mut self, m: f64) {
        if m < self.out.min_margin {
            self.out.min_margin = m;
            self.sink.set(m);
        }
    }
    fn uturn(&mut self, a: i64, b: i64) -> Result<bool, RefErr> {
        let (a, b) = if a < b { (a, b) } else { (b, a) };
        let sa = self.state(a)?;
        let sb = self.state(b)?;
        self.out.uturn_checks += 1;
        let mut t1 = 0.0;
        let mut t2 = 0.0;
        let mut scale = 1e-300;
        for i in 0..sa.y.len() {
            let dy = sb.y[i] - sa.y[i];
            t1 += dy * sa.v[i];
            t2 += dy * sb.v[i];
            scale += dy.abs() * (sa.v[i].abs() + sb.v[i].abs());
        }
        self.margin(t1.abs().min(t2.abs()) / scale);
        Ok(t1 < 0.0 || t2 < 0.0)
    }
    fn next_dir(&mut self) -> Result<bool, RefErr> {
        match self.answers.get(self.pos) {
            Some(Ans::Dir(f)) => {
                self.pos += 1;
                self.out.prob *= 0.5;
                Ok(*f)
            }
            other => Err(RefErr::AnswerMismatch(format!(
                "reference needs a direction at answer {} but the implementation asked for {other:?}",
                self.pos
            ))),
        }
    }
    /// accept with probability p (forced when p >= 1)
    fn decide(&mut self, log_ratio: f64) -> Result<bool, RefErr> {
        if log_ratio >= 0.0 {
            self.margin(log_ratio.abs());
            return Ok(true);
        }
        self.margin(log_ratio.abs());
        let p = log_ratio.exp();
        match self.answers.get(self.pos) {
            Some(Ans::Accept(a)) => {
                self.pos += 1;
                self.out.accept_probs.push(p);
                if bernoulli_threshold(p) == 0 {
                    // p < 2^-64: no 64-bit answer can accept; the "accept" branch of the answer
                    // alphabet is not realisable and carries no probability mass
                    self.out.prob *= if *a { 0.0 } else { 1.0 };
                    return Ok(false);
                }
                self.out.prob *= if *a { p } else { 1.0 - p };
                Ok(*a)
            }
            other => Err(RefErr::AnswerMismatch(format!(
                "reference needs an accept decision (p={p}) at answer {} but the implementation asked for {other:?}",
                self.pos
            ))),
        }
    }
    fn leaf(&mut self, idx: i64) -> Result<Sub, RefErr> {
        self.out.leaps.push(idx);
        let st = self.state(idx)?;
        let err = st.energy - self.e0;
        if st.diverged {
            return Ok(Sub::Diverging);
        }
        if !err.is_finite() || err > self.max_energy_error {
            // the implementation must have flagged it
            return Ok(Sub::Diverging);
        }
        self.margin(((self.max_energy_error - err) / self.max_energy_error.max(1.0)).abs());
        Ok(Sub::Ok(Tree {
            left: idx,
            right: idx,
            draw: idx,
            log_w: -err,
        }))
    }
    /// 2^depth new states beyond `edge` in direction dir (+1/-1)
    fn build(&mut self, edge: i64, dir: i64, depth: u64, check: bool) -> Result<Sub, RefErr> {
        if depth == 0 {
            return self.leaf(edge + dir);
        }
        let a = match self.build(edge, dir, depth - 1, check)? {
            Sub::Ok(t) => t,
            other => return Ok(other),
        };
        let edge2 = if dir > 0 { a.right } else { a.left };
        let b = match self.build(edge2, dir, depth - 1, check)? {
            Sub::Ok(t) => t,
            other => return Ok(other),
        };
        let (l, r) = (a.left.min(b.left), a.right.max(b.right));
        let mid = if dir > 0 { a.right } else { b.right }; // last index of the left half
        let mut turning = false;
        if check {
            turning = self.uturn(l, r)?;
            if depth - 1 > 0 {
                if !turning {
                    turning = self.uturn(mid, r)?;
                }
                if !turning {
                    turning = self.uturn(l, mid + 1)?;
                }
            }
        }
        // uniform progressive sampling inside a sub-tree (the decision is consumed even when the
        // sub-tree turns out to be turning)
        let total = logaddexp(a.log_w, b.log_w);
        let take_b = self.decide(b.log_w - total)?;
        if turning {
            return Ok(Sub::Turning);
        }
        Ok(Sub::Ok(Tree {
            left: l,
            right: r,
            draw: if take_b { b.draw } else { a.draw },
            log_w: total,
        }))
    }
}

pub struct RefOptions {
    pub maxdepth: u64,
    pub mindepth: u64,
    pub max_energy_error: f64,
    pub dim: usize,
}

/// maxdepth / mindepth in force for one draw (target_integration_time semantics of the options)
pub fn effective_depths(o: &NutsOptions, step_size: f64) -> (u64, u64) {
    if let Some(t) = o.target_integration_time {
        let max_steps = (t / step_size).ceil() as u64;
        let mind = ((max_steps as f64).log2().floor() as u64).max(o.mindepth);
        let maxd = ((max_steps as f64).log2().ceil() as u64).max(mind).min(o.maxdepth);
        (mind, maxd)
    } else {
        (o.mindepth, o.maxdepth)
    }
}

pub fn reference(rec: &Recorded, answers: &[Ans], opt: &RefOptions) -> Result<RefResult, RefErr> {
    let sink = std::cell::Cell::new(f64::INFINITY);
    match reference_raw(rec, answers, opt, &sink) {
        Err(e @ (RefErr::MissingState(_) | RefErr::AnswerMismatch(_))) if sink.get() < 1e-7 => Err(RefErr::IllConditioned(sink.get(), format!("{e:?}"))),
        other => other,
    }
}

fn reference_raw<'a>(rec: &'a Recorded, answers: &'a [Ans], opt: &RefOptions, sink: &'a std::cell::Cell<f64>) -> Result<RefResult, RefErr> {
    let s0 = rec.states.get(&0).ok_or(RefErr::MissingState(0))?;
    let mut run = Run {
        sink,
        rec,
        answers,
        pos: 0,
        e0: s0.energy,
        max_energy_error: opt.max_energy_error,
        out: RefResult {
            selected: 0,
            depth: 0,
            stop: Stop::MaxDepth,
            left: 0,
            right: 0,
            leaps: vec![],
            accept_probs: vec![],
            prob: 1.0,
            min_margin: f64::INFINITY,
            uturn_checks: 0,
            consumed: 0,
            log_weight_total: 0.0,
        },
    };
    if opt.dim == 0 {
        run.out.stop = Stop::ZeroDim;
        return Ok(run.out);
    }
    let mut tree = Tree {
        left: 0,
        right: 0,
        draw: 0,
        log_w: 0.0,
    };
    let mut depth = 0u64;
    let mut stop = Stop::MaxDepth;
    while depth < opt.maxdepth {
        let fwd = run.next_dir()?;
        let dir = if fwd { 1 } else { -1 };
        let check = depth >= opt.mindepth;
        let edge = if fwd { tree.right } else { tree.left };
        match run.build(edge, dir, depth, check)? {
            Sub::Diverging => {
                stop = Stop::Diverging;
                break;
            }
            Sub::Turning => {
                stop = Stop::SubtreeTurning;
                break;
            }
            Sub::Ok(sub) => {
                let (l, r) = (tree.left.min(sub.left), tree.right.max(sub.right));
                let mid = if fwd { tree.right } else { sub.right };
                let mut turning = false;
                if check {
                    turning = run.uturn(l, r)?;
                    if depth > 0 {
                        if !turning {
                            turning = run.uturn(mid, r)?;
                        }
                        if !turning {
                            turning = run.uturn(l, mid + 1)?;
                        }
                    }
                }
                // biased progressive sampling at the top level
                let take = run.decide(sub.log_w - tree.log_w)?;
                if take {
                    tree.draw = sub.draw;
                }
                tree.log_w = logaddexp(tree.log_w, sub.log_w);
                tree.left = l;
                tree.right = r;
                depth += 1;
                if turning {
                    stop = Stop::Turning;
                    break;
                }
            }
        }
    }
    run.out.selected = tree.draw;
    run.out.depth = depth;
    run.out.stop = stop;
    run.out.left = tree.left;
    run.out.right = tree.right;
    run.out.consumed = run.pos;
    run.out.log_weight_total = tree.log_w;
    Ok(run.out)
}
