//! C07 — step-size adaptation steers acceptance to the target and stays bounded (open loop).
//!
//! The real `DualAverage` / `Adam` / `Strategy::init` are driven directly (hook H1):
//!  * every acceptance sequence over {0, 0.2, 0.5, 0.8, 0.95, 1} up to length L, compared step by
//!    step with the published recurrences (R-dualavg / R-adam);
//!  * monotonicity: for every sequence and every position, raising that entry to the next symbol
//!    never lowers any later iterate or average;
//!  * all-0 / all-1 runs of realistic length stay finite, positive and <= max_step_size;
//!  * parameter alphabets for target_accept, k, t0, gamma, max_step_size, initial_step;
//!  * the initial doubling/halving search brackets the target (or takes a documented fall-back).

use mc_core::{Partial, Report, Tier};
use nuts_rs::verif::{
    self as nv, Adam, Direction, DualAverage, Hamiltonian, LeapfrogResult, NutsOptions, Point,
    StepSizeStrategy, TransformedHamiltonian,
};
use nuts_rs::{AdamOptions, KineticEnergyKind, StepSizeAdaptMethod, StepSizeSettings};
use rand::rngs::ChaCha8Rng;
use rand::SeedableRng;
use serde_json::json;

use crate::common::models::{Dens, Target};
use crate::common::refmodel::{RefAdam, RefDualAverage};
use crate::common::spy::SpyMath;

const ALPHA: [f64; 6] = [0.0, 0.2, 0.5, 0.8, 0.95, 1.0];

#[derive(Clone, Copy, Debug)]
struct DaParams {
    target: f64,
    k: f64,
    t0: f64,
    gamma: f64,
    max_step: f64,
    initial: f64,
}

fn da_settings(p: &DaParams) -> nuts_rs::verif::StepSizeSettings {
    let mut s = StepSizeSettings::default();
    s.target_accept = p.target;
    s.initial_step = p.initial;
    s.adapt_options.dual_average.k = p.k;
    s.adapt_options.dual_average.t0 = p.t0;
    s.adapt_options.dual_average.gamma = p.gamma;
    s.adapt_options.dual_average.max_step_size = p.max_step;
    s
}

/// (iterates, averages) of the real DualAverage for one acceptance sequence
fn run_da(pr: &DaParams, seq: &[f64]) -> (Vec<f64>, Vec<f64>) {
    let s = da_settings(pr);
    let mut da = DualAverage::new(s.adapt_options.dual_average, pr.initial);
    let mut it = Vec::with_capacity(seq.len());
    let mut av = Vec::with_capacity(seq.len());
    for a in seq {
        da.advance(*a, pr.target);
        it.push(da.current_step_size());
        av.push(da.current_step_size_adapted());
    }
    (it, av)
}

fn check_da_sequence(pr: &DaParams, seq: &[f64], p: &mut Partial, with_monotone: bool) {
    let key = format!("target{}-k{}-t0{}-gamma{}-max{}-init{}", pr.target, pr.k, pr.t0, pr.gamma, pr.max_step, pr.initial);
    let replay = json!({"params": format!("{pr:?}"), "sequence": seq});
    let (it, av) = run_da(pr, seq);
    let mut r = RefDualAverage::new(pr.k, pr.t0, pr.gamma, pr.max_step, pr.initial);
    p.evaluations += 1;
    for i in 0..seq.len() {
        r.advance(seq[i], pr.target);
        p.transitions += 1;
        let ok_val = |x: f64| x.is_finite() && x > 0.0 && x <= pr.max_step * (1.0 + 1e-12);
        if !ok_val(it[i]) || !(av[i].is_finite() && av[i] > 0.0) {
            let oracle = if it[i] == 0.0 || av[i] == 0.0 {
                // exp(log_step) underflowed: there is no lower clamp on the log step size
                "step-size-underflows-to-zero"
            } else {
                "step-size-not-positive-finite-bounded"
            };
            p.violation(format!("C07/{oracle}/{key}"), format!("update {i}: iterate {:e} average {:e} (max_step_size {})", it[i], av[i], pr.max_step), replay.clone());
            return;
        }
        // the average is a weighted average of the iterates and of the initial step: bounded too
        if av[i] > pr.max_step.max(pr.initial) * (1.0 + 1e-12) {
            p.violation(format!("C07/averaged-step-size-above-bound/{key}"), format!("update {i}: {}", av[i]), replay.clone());
            return;
        }
        if !mc_core::rel_close(it[i], r.step(), 1e-11, 0.0) || !mc_core::rel_close(av[i], r.step_bar(), 1e-11, 0.0) {
            p.violation(
                format!("C07/dual-averaging-recurrence/{key}"),
                format!("update {i}: iterate {} (reference {}), average {} (reference {})", it[i], r.step(), av[i], r.step_bar()),
                replay.clone(),
            );
            return;
        }
    }
    if with_monotone {
        for pos in 0..seq.len() {
            let sym = ALPHA.iter().position(|a| *a == seq[pos]).unwrap();
            if sym + 1 >= ALPHA.len() {
                continue;
            }
            let mut s2 = seq.to_vec();
            s2[pos] = ALPHA[sym + 1];
            let (it2, av2) = run_da(pr, &s2);
            p.evaluations += 1;
            for i in pos..seq.len() {
                if it2[i] < it[i] * (1.0 - 1e-13) || av2[i] < av[i] * (1.0 - 1e-13) {
                    p.violation(
                        format!("C07/raising-acceptance-lowered-step-size/{key}"),
                        format!("raising entry {pos} from {} to {} lowers update {i}: iterate {} -> {}, average {} -> {}", seq[pos], s2[pos], it[i], it2[i], av[i], av2[i]),
                        json!({"params": format!("{pr:?}"), "sequence": seq, "raised_position": pos}),
                    );
                    return;
                }
            }
        }
    }
    p.class(format!("da:len{}:{}", seq.len(), (it.last().copied().unwrap_or(pr.initial) >= pr.initial) as u8));
}

fn for_all_sequences(len: usize, f: &mut dyn FnMut(&[f64])) {
    let mut idx = vec![0usize; len];
    loop {
        let seq: Vec<f64> = idx.iter().map(|i| ALPHA[*i]).collect();
        f(&seq);
        let mut i = 0;
        loop {
            if i == len {
                return;
            }
            idx[i] += 1;
            if idx[i] < ALPHA.len() {
                break;
            }
            idx[i] = 0;
            i += 1;
        }
        if len == 0 {
            return;
        }
    }
}

fn check_adam(opts: &AdamOptions, initial: f64, target: f64, seq: &[f64], p: &mut Partial) {
    let key = format!("adam-b1{}-b2{}-lr{}-init{}-target{}", opts.beta1, opts.beta2, opts.learning_rate, initial, target);
    let replay = json!({"adam": format!("{opts:?}"), "initial": initial, "target": target, "sequence": seq});
    let mut a = Adam::new(*opts, initial);
    let mut r = RefAdam::new(opts.beta1, opts.beta2, opts.epsilon, opts.learning_rate, initial);
    let mut prev = a.current_step_size();
    p.evaluations += 1;
    for (i, acc) in seq.iter().enumerate() {
        a.advance(*acc, target);
        let mh = r.advance(*acc, target);
        p.transitions += 1;
        let cur = a.current_step_size();
        if !(cur.is_finite() && cur > 0.0) {
            // the property states no bound for Adam (AdamOptions has no max_step_size): counted only
            p.count("adam_step_size_left_the_finite_positive_range", 1);
            return;
        }
        if !mc_core::rel_close(cur, r.step(), 1e-11, 0.0) {
            p.violation(format!("C07/adam-recurrence/{key}"), format!("update {i}: {cur} vs {}", r.step()), replay.clone());
            return;
        }
        // moves up exactly when the bias-corrected smoothed (accept - target) is positive
        if mh.abs() > 1e-12 && ((cur > prev) != (mh > 0.0)) {
            p.violation(
                format!("C07/adam-direction/{key}"),
                format!("update {i}: smoothed (accept-target) = {mh}, step size {prev} -> {cur}"),
                replay.clone(),
            );
            return;
        }
        prev = cur;
    }
    p.class(format!("adam:len{}", seq.len()));
}

/// one-leapfrog acceptance statistic min(1, exp(E0 - E1)) from `pos` with momentum `mom` and step eps
fn one_step_accept(scale: f64, pos: &[f64], mom: &[f64], eps: f64, backward: bool) -> Option<f64> {
    let (mut math, spy) = SpyMath::new(Dens::new(Target::DiagNormal { mu: vec![0.0, 0.0], sigma: vec![scale, scale * 3.0] }));
    let mm = nv::diag_mass_matrix_new(&mut math, false);
    let mut h = TransformedHamiltonian::new(&mut math, mm, KineticEnergyKind::Euclidean);
    // identity transformation (stds = 1, mean = 0)
    let ones = {
        let mut o = math.new_array();
        math.fill_array(&mut o, 1.0);
        o
    };
    let zeros = math.new_array();
    nv::diag_mass_matrix_set(h.transformation_mut(), &mut math, &ones, &zeros);
    let mut state = h.init_state(&mut math, pos).ok()?;
    spy.borrow_mut().gaussian_script.push_back(mom.to_vec());
    let mut rng = ChaCha8Rng::seed_from_u64(0);
    h.initialize_trajectory(&mut math, &mut state, true, &mut rng).ok()?;
    *h.step_size_mut() = eps;
    let mut coll = NoCollector;
    let dir = if backward { Direction::Backward } else { Direction::Forward };
    match h.leapfrog(&mut math, &state, dir, 1.0, state.point().initial_energy(), 1000.0, &mut coll) {
        LeapfrogResult::Ok(end) => {
            let diff = state.point().energy() - end.point().energy();
            Some(diff.min(0.0).exp())
        }
        _ => None,
    }
}

use nuts_rs::Math;

struct NoCollector;
impl<MM: Math, P: Point<MM>> nv::Collector<MM, P> for NoCollector {}

fn check_search(scale: f64, initial: f64, target: f64, p: &mut Partial) {
    check_search_with(scale, initial, target, StepSizeAdaptMethod::DualAverage, p);
    check_search_with(scale, initial, target, StepSizeAdaptMethod::Adam, p);
}

fn check_search_with(scale: f64, initial: f64, target: f64, method: StepSizeAdaptMethod, p: &mut Partial) {
    let key = format!("search-scale{scale}-init{initial}-target{target}{}", if matches!(method, StepSizeAdaptMethod::DualAverage) { String::new() } else { format!("-{method:?}") });
    let replay = json!({"gaussian_scale": scale, "initial_step": initial, "target_accept": target});
    let pos = [0.7 * scale, -1.1 * scale * 3.0];
    let mom = [0.9, -0.4];
    let (mut math, spy) = SpyMath::new(Dens::new(Target::DiagNormal { mu: vec![0.0, 0.0], sigma: vec![scale, scale * 3.0] }));
    let mm = nv::diag_mass_matrix_new(&mut math, false);
    let mut h = TransformedHamiltonian::new(&mut math, mm, KineticEnergyKind::Euclidean);
    let ones = {
        let mut o = math.new_array();
        math.fill_array(&mut o, 1.0);
        o
    };
    let zeros = math.new_array();
    nv::diag_mass_matrix_set(h.transformation_mut(), &mut math, &ones, &zeros);
    let mut settings = StepSizeSettings::default();
    settings.initial_step = initial;
    settings.target_accept = target;
    settings.adapt_options.method = method;
    settings.jitter = None;
    // non-default estimator options (they play no part in the search itself; the cap is far away)
    settings.adapt_options.dual_average.k = 0.6;
    settings.adapt_options.dual_average.t0 = 3.5;
    settings.adapt_options.dual_average.gamma = 0.3;
    settings.adapt_options.dual_average.max_step_size = 1e7;
    settings.adapt_options.adam.beta1 = 0.5;
    settings.adapt_options.adam.learning_rate = 0.2;
    let da_opts = settings.adapt_options.dual_average;
    let adam_opts = settings.adapt_options.adam;
    let mut strat = StepSizeStrategy::new(settings);
    // the search draws its momentum once
    spy.borrow_mut().gaussian_script.push_back(mom.to_vec());
    let mut rng = ChaCha8Rng::seed_from_u64(0);
    // the sampler's divergence threshold is the user's business, not the search's: the search has
    // its own fixed limit (1000) for its trial steps, so a tight max_energy_error changes nothing
    let mut options = NutsOptions { max_energy_error: if initial > 2.0 * scale { 50.0 } else { 1000.0 }, ..NutsOptions::default() };
    p.evaluations += 1;
    if let Err(e) = strat.init(&mut math, &mut options, &mut h, &pos, &mut rng) {
        p.violation(format!("C07/search-failed/{key}"), format!("{e}"), replay);
        return;
    }
    let eps = h.step_size();
    if !(eps.is_finite() && eps > 0.0) {
        p.violation(format!("C07/search-step-not-positive-finite/{key}"), format!("{eps}"), replay);
        return;
    }
    // the estimator continues from the step the search found: installing its current iterate
    // right after the search must not move the step size
    strat.update_stepsize(&mut rng, &mut h, false);
    let eps_after = h.step_size();
    if !mc_core::rel_close(eps_after, eps, 1e-12, 0.0) {
        p.violation(
            format!("C07/estimator-does-not-restart-from-the-search-result/{key}"),
            format!("search ended at {eps}, the estimator's first iterate is {eps_after}"),
            replay,
        );
        return;
    }
    // ... and it continues with the CONFIGURED estimator options: three updates in lock-step with
    // the reference recurrence started at the search result
    {
        use nuts_rs::verif::AcceptanceRateCollector;

        let mut h_eps = eps;
        let mut rda = RefDualAverage::new(da_opts.k, da_opts.t0, da_opts.gamma, da_opts.max_step_size, eps);
        let mut radam = RefAdam::new(adam_opts.beta1, adam_opts.beta2, adam_opts.epsilon, adam_opts.learning_rate, eps);
        for (i, a) in [0.2, 0.95, 0.5].into_iter().enumerate() {
            let c = AcceptanceRateCollector::verif_with(a, a, 3, 0.0);
            strat.update(&c);
            strat.update_estimator_early();
            strat.update_stepsize(&mut rng, &mut h, false);
            let got = h.step_size();
            let want = if matches!(method, StepSizeAdaptMethod::DualAverage) {
                rda.advance(a, target);
                rda.step()
            } else {
                radam.advance(a, target);
                radam.step()
            };
            if !mc_core::rel_close(got, want, 1e-10, 0.0) {
                p.violation(
                    format!("C07/estimator-after-the-search-ignores-its-configured-options/{key}"),
                    format!("update {i} after the search (from {h_eps}): step size {got}, the recurrence with the configured options gives {want}"),
                    replay,
                );
                return;
            }
            h_eps = got;
        }
        *h.step_size_mut() = eps;
    }
    let acc = |e: f64| one_step_accept(scale, &pos, &mom, e, false);
    let a_init = acc(initial);
    let a_eps = acc(eps);
    let outcome;
    match (a_init, a_eps) {
        (None, _) => {
            // the very first trial step failed: documented fall-back keeps the initial step
            outcome = "first-step-failed";
            if eps != initial {
                p.violation(format!("C07/search-fallback/{key}"), format!("first trial step not ok but step {eps} != initial {initial}"), replay);
                return;
            }
        }
        (Some(a0), _) => {
            // the search, re-enacted with one-step acceptances recomputed by the real leapfrog under
            // the search's own limit of 1000: the trial steps are initial, then doubled (forward in
            // time) while the acceptance is above the target / halved (backward in time) while it
            // is below; a trial step that fails sends the search back to the initial step
            let forward = a0 > target;
            let acc_dir = |e: f64| one_step_accept(scale, &pos, &mom, e, !forward);
            let mut e = initial;
            let mut expected: Option<f64> = None;
            let mut failed_trial: Option<f64> = None;
            for _ in 0..100 {
                match acc_dir(e) {
                    None => {
                        failed_trial = Some(e);
                        break;
                    }
                    Some(a) => {
                        if forward {
                            if a <= target || e > 1e5 {
                                expected = Some(e);
                                break;
                            }
                            e *= 2.0;
                        } else {
                            if a >= target || e < 1e-10 {
                                expected = Some(e);
                                break;
                            }
                            e /= 2.0;
                        }
                    }
                }
            }
            let want = expected.unwrap_or(initial);
            outcome = match (expected, forward) {
                (Some(_), true) => "doubling-bracket",
                (Some(_), false) => "halving-bracket",
                (None, true) => "doubling-fallback",
                (None, false) => "halving-fallback",
            };
            if !mc_core::rel_close(eps, want, 1e-12, 0.0) {
                p.violation(
                    format!("C07/search-does-not-bracket-target/{key}"),
                    format!(
                        "{} from {initial} ended at {eps}; re-enacted with the one-step acceptances it must end at {want} ({})",
                        if forward { "doubling" } else { "halving" },
                        match failed_trial { Some(f) => format!("trial step {f} fails"), None => "no trial step fails".to_string() }
                    ),
                    replay,
                );
                return;
            }
        }
    }
    p.class(format!("search:{outcome}"));
    if p.samples.len() < 2 {
        p.sample(json!({"search": {"scale": scale, "initial_step": initial, "target": target, "found": eps, "outcome": outcome}}));
    }
}

pub fn run(tier: Tier, _replay: Option<String>) -> i32 {
    let mut report = Report::new(
        "C07",
        tier,
        "model_checking",
        "open-loop exploration of the real DualAverage/Adam/Strategy::init: all acceptance sequences over {0,0.2,0.5,0.8,0.95,1} up to length L (default parameters, with all single-entry raises), parameter product 3^6 x sequences up to length 3, constant runs of length 2000, Adam sequences, initial search on Gaussian scales 1e-4..1e4 x initial steps x targets. states = sequence prefixes visited, transitions = updates compared with the reference recurrence; distinct = outcome classes",
    );
    report.assume("closed-loop clause ('post-warmup mean acceptance is close to target_accept') is statistical and not decided here");
    let l_default = tier.pick(6, 9);
    let default = DaParams { target: 0.8, k: 0.75, t0: 10.0, gamma: 0.05, max_step: std::f64::consts::PI, initial: 0.1 };

    // jobs: split the default-parameter exploration by the first two symbols
    #[derive(Clone)]
    enum Job {
        DaDefault(Vec<f64>, usize),
        DaParams(DaParams, usize),
        Constant(DaParams, f64),
        Adam(AdamOptions, f64, f64, usize),
        Search(f64, f64, f64),
    }
    let mut jobs = vec![];
    for a in ALPHA {
        for b in ALPHA {
            jobs.push(Job::DaDefault(vec![a, b], l_default));
        }
    }
    let vals_target = [0.6, 0.8, 0.95];
    let vals_k = [0.5, 0.75, 1.0];
    // (whole and fractional offsets: an offset that is truncated somewhere only shows on the latter)
    let vals_t0 = [0.0, 0.25, 0.75, 2.5, 10.0, 10.5, 100.0];
    let vals_gamma = [0.01, 0.05, 1.0];
    let vals_max = [0.1, std::f64::consts::PI, 100.0];
    let vals_init = [1e-3, 0.1, 10.0];
    for t in vals_target {
        for k in vals_k {
            for t0 in vals_t0 {
                for g in vals_gamma {
                    for m in vals_max {
                        for i in vals_init {
                            let pr = DaParams { target: t, k, t0, gamma: g, max_step: m, initial: i };
                            jobs.push(Job::DaParams(pr, tier.pick(3, 6)));
                            jobs.push(Job::Constant(pr, 0.0));
                            jobs.push(Job::Constant(pr, 1.0));
                        }
                    }
                }
            }
        }
    }
    for b1 in [0.5, 0.9] {
        for lr in [0.01, 0.05, 0.5] {
            for init in [1e-3, 0.1, 10.0] {
                for target in [0.6, 0.8] {
                    let o = AdamOptions { beta1: b1, beta2: 0.999, epsilon: 1e-8, learning_rate: lr };
                    jobs.push(Job::Adam(o, init, target, tier.pick(5, 8)));
                }
            }
        }
    }
    for e in -4..=4 {
        // absolute initial steps, and initial steps a little above the scale of the target (the
        // regime in which the search halves without the first trial step diverging)
        let scale = 10f64.powi(e);
        // (the larger multiples give first trial steps whose energy error lies between a tight
        // sampler threshold and the search's own limit)
        for init in [1e-3, 0.1, 10.0, 1.7 * scale, 2.5 * scale, 6.0 * scale, 3.0 * scale, 3.5 * scale, 4.0 * scale, 4.5 * scale, 5.0 * scale, 8.0 * scale] {
            for target in [0.6, 0.8, 0.95] {
                jobs.push(Job::Search(scale, init, target));
            }
        }
    }
    report.bounds = json!({"sequence_length_default_params": l_default, "parameter_sets": vals_target.len() * vals_k.len() * vals_t0.len() * vals_gamma.len() * vals_max.len() * vals_init.len(), "jobs": jobs.len()});
    mc_core::par_for_each(&jobs, |_, j| {
        let mut p = Partial::new();
        match j {
            Job::DaDefault(prefix, len) => {
                let rest = len - prefix.len();
                for l in 0..=rest {
                    for_all_sequences(l, &mut |tail| {
                        let mut s = prefix.clone();
                        s.extend_from_slice(tail);
                        p.states += 1;
                        check_da_sequence(&default, &s, &mut p, true);
                    });
                }
                if p.samples.is_empty() {
                    p.sample(json!({"dual_average_default_params": {"prefix": prefix, "max_length": len}}));
                }
            }
            Job::DaParams(pr, len) => {
                for l in 1..=*len {
                    for_all_sequences(l, &mut |s| {
                        p.states += 1;
                        check_da_sequence(pr, s, &mut p, l <= 2);
                    });
                }
            }
            Job::Constant(pr, v) => {
                let seq = vec![*v; 2000];
                p.states += 1;
                check_da_sequence(pr, &seq, &mut p, false);
                p.class(format!("constant:{v}"));
            }
            Job::Adam(o, init, target, len) => {
                for l in 1..=*len {
                    for_all_sequences(l, &mut |s| {
                        p.states += 1;
                        check_adam(o, *init, *target, s, &mut p);
                    });
                }
                let seq = vec![0.0; 300];
                check_adam(o, *init, *target, &seq, &mut p);
                let seq = vec![1.0; 300];
                check_adam(o, *init, *target, &seq, &mut p);
            }
            Job::Search(scale, init, target) => check_search(*scale, *init, *target, &mut p),
        }
        p.validated = p.evaluations;
        report.merge(p);
    });
    // the statistic itself: what a trajectory reports as its acceptance rate (0 for a divergent
    // leapfrog) - histories of the real chain judged against the mirror chain's recorded energies
    report.merge(crate::c03::acceptance_statistic_partial(tier));
    // which statistic steers which phase (plain early, symmetric late), dual averaging and Adam
    report.merge(crate::c09::step_size_statistic_partial(tier));
    report.finish()
}
