//! C16 — statistics schema and per-draw values are mutually consistent.
//!
//! Exhaustive over the option lattice: six presets x all 2^4 store_* flags x store_mass_matrix x
//! use_grad_based_estimate x dimensions x divergence placements (a recoverable density error in
//! every single draw and every pair of draws of a 12-draw history).

use std::collections::BTreeMap;

use mc_core::{Partial, Report, Tier};
use nuts_rs::ItemType;
use serde_json::json;

use crate::common::models::{Dens, FaultKind, Target};
use crate::common::runner::*;
use crate::common::stats::*;
use crate::with_settings;

#[derive(Clone, Debug)]
struct Cfg {
    preset: Preset,
    flags: u8, // bit0 gradient, bit1 unconstrained, bit2 transformed, bit3 divergences
    store_mass_matrix: bool,
    grad_based: bool,
    dim: usize,
    /// covariance I + 2*11^T instead of a diagonal one (the low-rank estimator then keeps
    /// eigenvalues and the eigen-statistics carry values)
    correlated: bool,
    num_tune: u64,
}

fn tweaks(c: &Cfg) -> Tweaks {
    let mut t = Tweaks::default();
    t.num_tune = c.num_tune;
    t.num_draws = 4;
    t.maxdepth = Some(3);
    t.store_gradient = c.flags & 1 != 0;
    t.store_unconstrained = c.flags & 2 != 0;
    t.store_transformed = c.flags & 4 != 0;
    t.store_divergences = c.flags & 8 != 0;
    t.store_mass_matrix = c.store_mass_matrix;
    t.use_grad_based_estimate = Some(c.grad_based);
    t.early_switch_freq = Some(2);
    t.switch_freq = Some(3);
    t.update_freq = Some(1);
    t.mclmc_length = Some(1.0);
    t.dynamic_step_size = Some(false);
    t
}

fn target_of(c: &Cfg) -> Target {
    if c.correlated && c.dim >= 2 {
        let d = c.dim;
        let w = 2.0 / (1.0 + 2.0 * d as f64);
        let prec: Vec<f64> = (0..d * d).map(|i| if i / d == i % d { 1.0 - w } else { -w }).collect();
        return Target::DenseNormal { mu: (0..d).map(|i| 0.2 * i as f64).collect(), prec };
    }
    target(c.dim)
}

fn target(dim: usize) -> Target {
    Target::DiagNormal {
        mu: (0..dim).map(|i| 0.2 * i as f64).collect(),
        sigma: (0..dim).map(|i| 0.5 + i as f64).collect(),
    }
}

fn item_name(t: ItemType) -> &'static str {
    match t {
        ItemType::U64 => "U64",
        ItemType::I64 => "I64",
        ItemType::F64 => "F64",
        ItemType::F32 => "F32",
        ItemType::Bool => "Bool",
        ItemType::String => "String",
        ItemType::DateTime64(_) => "DateTime64",
        ItemType::TimeDelta64(_) => "TimeDelta64",
    }
}

fn check_history(c: &Cfg, faults: &[(u64, FaultKind)], p: &mut Partial, tag: &str) -> Option<Vec<u64>> {
    let t = tweaks(c);
    let n = 12usize;
    let start: Vec<f64> = (0..c.dim).map(|i| 0.15 + 0.37 * i as f64).collect();
    let (schema, res) = with_settings!(c.preset, &t, |s| {
        let schema = schema_of(&s, Dens::new(target_of(c)));
        let res = run_chain(&s, Dens::with_faults(target_of(c), faults.to_vec()), 3, &start, n);
        (schema, res)
    });
    p.evaluations += 1;
    let key = format!("{:?}/flags{}/mm{}/gb{}/dim{}{}{}/{tag}", c.preset, c.flags, c.store_mass_matrix, c.grad_based, c.dim, if c.correlated { "corr" } else { "" }, if c.num_tune != 8 { format!("/tune{}", c.num_tune) } else { String::new() });
    let replay = json!({"config": format!("{c:?}"), "faults": format!("{faults:?}")});
    if !matches!(res.end, RunEnd::Completed) {
        p.count(&format!("history_not_completed:{:?}:{}", c.preset, format!("{:?}", res.end).chars().take(60).collect::<String>()), 1);
        // not this property's business unless it panicked (C05 judges fault handling)
        if matches!(res.end, RunEnd::DrawPanicked(..) | RunEnd::NewChainPanicked(..) | RunEnd::SetPositionPanicked(..)) {
            p.violation(format!("C16/panic/{key}"), format!("{:?}", res.end), replay);
        }
        return None;
    }
    let types: BTreeMap<String, ItemType> = schema.types.iter().cloned().collect();
    let dims: BTreeMap<String, Vec<String>> = schema.dims.iter().cloned().collect();
    let evd: BTreeMap<String, Option<String>> = schema.event_dims.iter().cloned().collect();
    let mut presence: BTreeMap<String, (usize, usize)> = BTreeMap::new(); // (present, absent)
    let mut evals = vec![];
    let mut viol = |oracle: &str, detail: String, p: &mut Partial| {
        p.violation(format!("C16/{oracle}/{key}"), detail, replay.clone());
    };
    for (d, r) in res.draws.iter().enumerate() {
        evals.push(r.n_eval_after);
        let names: Vec<String> = r.stats.iter().map(|(k, _)| k.clone()).collect();
        if names != schema.names {
            viol("names-differ-from-schema", format!("draw {d}: {names:?} vs {:?}", schema.names), p);
            return None;
        }
        let diverging = bool_of(&r.stats, "diverging").unwrap_or(false);
        if diverging != r.diverging {
            viol("diverging-flag-vs-progress", format!("draw {d}"), p);
        }
        for (name, val) in &r.stats {
            let e = presence.entry(name.clone()).or_insert((0, 0));
            match val {
                Some(v) => {
                    e.0 += 1;
                    let (variant, len, scalar) = value_shape(v);
                    if name == "mass_matrix_eigvals" {
                        if let nuts_rs::Value::F64(x) = v {
                            if x.iter().any(|e| e.is_finite()) {
                                p.count("draws_reporting_retained_eigenvalues", 1);
                            }
                        }
                    }
                    let ty = types[name];
                    if variant != item_name(ty) {
                        viol("value-type", format!("draw {d}: {name} is {variant}, declared {}", item_name(ty)), p);
                    }
                    let dd = &dims[name];
                    let expect_len: u64 = dd.iter().map(|x| *schema.dim_sizes.get(x).unwrap_or(&u64::MAX)).product();
                    if dd.is_empty() {
                        if !scalar {
                            viol("value-shape", format!("draw {d}: {name} declared scalar but is an array of {len}"), p);
                        }
                    } else if scalar || len as u64 != expect_len {
                        viol("value-shape", format!("draw {d}: {name} has length {len} (scalar={scalar}), declared dims {dd:?} = {expect_len}"), p);
                    }
                }
                None => e.1 += 1,
            }
            // event statistics
            match evd[name].as_deref() {
                Some("divergence") => {
                    if val.is_some() && !diverging {
                        viol("divergence-field-on-non-divergent-draw", format!("draw {d}: {name}"), p);
                    }
                    if diverging && val.is_none() && (name == "divergence_draw" || name == "divergence_message") {
                        viol("divergence-identifying-field-missing", format!("draw {d}: {name}"), p);
                    }
                }
                Some("transformation_update") => {}
                Some(other) => {
                    viol("unknown-event-dim", format!("{name}: {other}"), p);
                }
                None => {}
            }
        }
        // draw counter / chain id
        let sd = u64_of(&r.stats, "draw");
        if d > 0 {
            let prev = u64_of(&res.draws[d - 1].stats, "draw");
            if let (Some(a), Some(b)) = (prev, sd) {
                if b != a + 1 {
                    viol("draw-counter", format!("draw {d}: {a} -> {b}"), p);
                }
            }
        }
        if u64_of(&r.stats, "chain") != Some(0) || r.chain != 0 {
            viol("chain-id", format!("draw {d}"), p);
        }
        p.class(format!("{:?}:{}:div{}", c.preset, c.flags, diverging as u8));
    }
    // non-event statistics: on every draw or on none
    for (name, (pres, abs)) in &presence {
        if evd[name].is_none() && *pres > 0 && *abs > 0 {
            viol("non-event-statistic-sometimes-missing", format!("{name}: present {pres}, absent {abs}"), p);
        }
    }
    // a statistic that has an option: present on every draw (every draw of its event) when the
    // option is on, on none when it is off
    {
        let n = res.draws.len();
        let on = |bit: u8| c.flags & bit != 0;
        let table: [(&str, bool); 4] = [
            ("gradient", on(1)),
            ("unconstrained_draw", on(2)),
            ("transformed_position", on(4)),
            ("transformed_gradient", on(4)),
        ];
        for (name, opt) in table {
            if let Some((pres, _abs)) = presence.get(name) {
                p.count("option_presence_rules_checked", 1);
                let want = if opt { n } else { 0 };
                if *pres != want {
                    viol("statistic-presence-does-not-follow-its-option", format!("{name}: option {} but present on {pres} of {n} draws", if opt { "on" } else { "off" }), p);
                }
            }
        }
        let n_updates = presence.get("transformation_update_id").map(|x| x.0).unwrap_or(0);
        for (name, opt, with_every_event) in [
            ("divergence_start", on(8), false),
            ("divergence_start_gradient", on(8), false),
            ("divergence_end", on(8), false),
            ("divergence_momentum", on(8), false),
            ("mass_matrix_inv", c.store_mass_matrix, true),
            ("transformation_mu", c.store_mass_matrix, true),
            ("mass_matrix_stds", c.store_mass_matrix, true),
            ("mass_matrix_eigvals", c.store_mass_matrix, false),
        ] {
            if let Some((pres, _abs)) = presence.get(name) {
                p.count("option_presence_rules_checked", 1);
                if !opt && *pres > 0 {
                    viol("statistic-presence-does-not-follow-its-option", format!("{name}: option off but present on {pres} draws"), p);
                }
                if opt && with_every_event && *pres != n_updates {
                    viol("statistic-presence-does-not-follow-its-option", format!("{name}: option on, present on {pres} draws but {n_updates} draws report a transformation update"), p);
                }
            }
        }
    }
    // the diagonal scale is observable on every draw without trusting any counter: the
    // transformed gradient is the gradient times the scale. A draw whose successor shows another
    // scale must carry the transformation-update event.
    if matches!(c.preset, Preset::DiagNuts | Preset::DiagMclmc) && c.flags & 1 != 0 && c.flags & 4 != 0 {
        let scale_of = |r: &crate::common::runner::DrawRec| -> Option<Vec<f64>> {
            let g = vec_of(&r.stats, "gradient")?;
            let gy = vec_of(&r.stats, "transformed_gradient")?;
            if g.len() != gy.len() || g.iter().any(|x| x.abs() < 1e-9 || !x.is_finite()) || gy.iter().any(|x| !x.is_finite()) {
                return None;
            }
            Some(g.iter().zip(&gy).map(|(a, b)| b / a).collect())
        };
        for d in 0..res.draws.len().saturating_sub(1) {
            let (Some(a), Some(b)) = (scale_of(&res.draws[d]), scale_of(&res.draws[d + 1])) else { continue };
            p.count("diagonal_scales_observed_on_consecutive_draws", 1);
            let changed = a.iter().zip(&b).any(|(x, y)| (x - y).abs() > 1e-9 * x.abs().max(y.abs()));
            let ev = get(&res.draws[d].stats, "transformation_update_id").is_some();
            if changed && !ev {
                viol(
                    "transformation-changed-without-update-event",
                    format!("draw {d}: scale (transformed gradient / gradient) {a:?}, draw {}: {b:?}, but draw {d} carries no transformation_update_id", d + 1),
                    p,
                );
                break;
            }
            if changed {
                p.count("observed_scale_changes_with_event", 1);
            }
        }
    }
    // (round 13, after C16k) the same observation for *any* linear transformation, diagonal or
    // low-rank: the transformed gradient is a fixed linear image of the gradient for as long as
    // the transformation stays. All draws between two update events (the event draw closes its
    // segment) must therefore be explained by ONE matrix: fit it by least squares and demand a
    // vanishing residual. A transformation that changes without an event merges two segments.
    if matches!(c.preset, Preset::DiagNuts | Preset::DiagMclmc | Preset::LowRankNuts | Preset::LowRankMclmc) && c.flags & 1 != 0 && c.flags & 4 != 0 && c.dim >= 1 {
        let mut seg: Vec<(Vec<f64>, Vec<f64>)> = vec![];
        let mut seg_start = 0usize;
        let n = res.draws.len();
        for d in 0..n {
            let r = &res.draws[d];
            if let (Some(g), Some(gy)) = (vec_of(&r.stats, "gradient"), vec_of(&r.stats, "transformed_gradient")) {
                if g.len() == c.dim && gy.len() == c.dim && g.iter().chain(gy.iter()).all(|x| x.is_finite()) {
                    seg.push((g, gy));
                }
            }
            let ev = get(&r.stats, "transformation_update_id").is_some();
            if ev || d + 1 == n {
                if seg.len() > c.dim {
                    match linear_fit_residual(&seg, c.dim) {
                        Some(resid) => {
                            p.count("segments_between_update_events_fitted_by_one_linear_map", 1);
                            if resid > 1e-7 {
                                viol(
                                    "transformation-changed-without-update-event",
                                    format!("draws {seg_start}..={d} carry no transformation update in between, but no single linear map takes their gradients to their transformed gradients (relative residual {resid:e})"),
                                    p,
                                );
                            }
                        }
                        None => p.count("segments_with_degenerate_gradients_not_fitted", 1),
                    }
                }
                seg.clear();
                seg_start = d + 1;
            }
        }
    }
    // transformation-update events <=> the transformation changed
    if types.contains_key("transformation_update_id") {
        for d in 0..res.draws.len() {
            let r = &res.draws[d];
            let ev = get(&r.stats, "transformation_update_id").is_some();
            if d + 1 < res.draws.len() && d > 0 {
                let a = i64_of(&r.stats, "transformation_index");
                let b = i64_of(&res.draws[d + 1].stats, "transformation_index");
                let changed = a != b;
                if changed != ev {
                    viol(
                        "transformation-update-event-vs-change",
                        format!("draw {d}: event={ev} but transformation_index {a:?} -> {b:?}"),
                        p,
                    );
                }
            }
            for (name, val) in &r.stats {
                if evd[name].as_deref() == Some("transformation_update") && val.is_some() && !ev {
                    viol("transformation-update-field-without-id", format!("draw {d}: {name}"), p);
                }
            }
        }
    }
    if p.samples.is_empty() {
        p.sample(json!({"config": format!("{c:?}"), "faults": format!("{faults:?}"),
            "names": schema.names.len(), "diverging_draws": res.draws.iter().enumerate().filter(|(_, r)| r.diverging).map(|(i, _)| i).collect::<Vec<_>>()}));
    }
    Some(evals)
}

pub fn run(tier: Tier, _replay: Option<String>) -> i32 {
    let mut report = Report::new(
        "C16",
        tier,
        "exploration",
        "six presets x 16 store_* flag combinations x store_mass_matrix x use_grad_based_estimate x dims x {no divergence, a recoverable density error in each single draw, each pair of draws} of a 12-draw history; per draw: names/order, value variant vs stat_type, length vs stat_dims, event presence rules, counters. distinct = (preset, flags, diverging?) classes",
    );
    report.assume("divergences are produced by a recoverable density error (even draws) or a huge finite logp drop (odd draws) at the second evaluation of the chosen draw(s)");
    let mut cfgs = vec![];
    for preset in Preset::ALL {
        let dims: Vec<usize> = if preset.is_nuts() {
            tier.pick(vec![0, 1, 2], vec![0, 1, 2, 5])
        } else {
            tier.pick(vec![2], vec![2, 5])
        };
        for flags in 0..16u8 {
            for mm in [false, true] {
                for gb in [true, false] {
                    if gb == false && !matches!(preset, Preset::DiagNuts | Preset::DiagMclmc) {
                        continue;
                    }
                    for &dim in &dims {
                        cfgs.push(Cfg { preset, flags, store_mass_matrix: mm, grad_based: gb, dim, correlated: false, num_tune: 8 });
                        // no warmup at all / a single warmup draw: the chain starts (almost) frozen
                        if flags == 0 || flags == 15 {
                            cfgs.push(Cfg { preset, flags, store_mass_matrix: mm, grad_based: gb, dim, correlated: false, num_tune: 0 });
                            cfgs.push(Cfg { preset, flags, store_mass_matrix: mm, grad_based: gb, dim, correlated: false, num_tune: 1 });
                        }
                        if dim >= 2 && matches!(preset, Preset::LowRankNuts | Preset::LowRankMclmc) {
                            cfgs.push(Cfg { preset, flags, store_mass_matrix: mm, grad_based: gb, dim, correlated: true, num_tune: 8 });
                        }
                    }
                }
            }
        }
    }
    report.bounds = json!({"configurations": cfgs.len(), "draws_per_history": 12});
    mc_core::par_for_each(&cfgs, |_, c| {
        let mut p = Partial::new();
        if let Some(evals) = check_history(c, &[], &mut p, "nofault") {
            // evaluation index of the 2nd evaluation of draw k in the fault-free run
            let first_of = |k: usize| -> u64 { if k == 0 { evals_start(c) } else { evals[k - 1] } };
            let singles: Vec<usize> = (0..12).collect();
            for &k in &singles {
                if c.dim == 0 {
                    continue;
                }
                let at = first_of(k) + 1;
                let kind = if k % 2 == 0 { FaultKind::Recoverable } else { FaultKind::HugeDrop };
                check_history(c, &[(at, kind)], &mut p, &format!("div{k}"));
            }
            if tier == Tier::Thorough || c.flags == 15 || c.flags == 0 {
                for a in 0..12 {
                    for b in (a + 1)..12 {
                        if c.dim == 0 {
                            continue;
                        }
                        check_history(
                            c,
                            &[(first_of(a) + 1, FaultKind::Recoverable), (first_of(b) + 1, FaultKind::Recoverable)],
                            &mut p,
                            &format!("div{a}+{b}"),
                        );
                    }
                }
            }
        }
        report.merge(p);
    });
    report.finish()
}

/// number of evaluations performed by set_position in the fault-free run
fn evals_start(c: &Cfg) -> u64 {
    let t = tweaks(c);
    let start: Vec<f64> = (0..c.dim).map(|i| 0.15 + 0.37 * i as f64).collect();
    with_settings!(c.preset, &t, |s| run_chain(&s, Dens::new(target(c.dim)), 3, &start, 0)).n_eval_after_init
}


/// least-squares fit of `gy = A^T g` over the pairs of a segment; returns the largest residual
/// relative to the largest transformed gradient, `None` when the gradients do not span the space
fn linear_fit_residual(pairs: &[(Vec<f64>, Vec<f64>)], dim: usize) -> Option<f64> {
    // normal equations (G^T G) A = G^T T, solved column by column with partial pivoting
    let mut gtg = vec![vec![0.0f64; dim]; dim];
    let mut gtt = vec![vec![0.0f64; dim]; dim];
    for (g, t) in pairs {
        for i in 0..dim {
            for j in 0..dim {
                gtg[i][j] += g[i] * g[j];
                gtt[i][j] += g[i] * t[j];
            }
        }
    }
    // scale-invariant conditioning test: equilibrate by the diagonal
    let diag: Vec<f64> = (0..dim).map(|i| gtg[i][i].sqrt()).collect();
    if diag.iter().any(|x| !(*x > 0.0)) {
        return None;
    }
    let mut m = vec![vec![0.0f64; 2 * dim]; dim];
    for i in 0..dim {
        for j in 0..dim {
            m[i][j] = gtg[i][j] / (diag[i] * diag[j]);
            m[i][dim + j] = gtt[i][j] / diag[i];
        }
    }
    for col in 0..dim {
        let piv = (col..dim).max_by(|a, b| m[*a][col].abs().partial_cmp(&m[*b][col].abs()).unwrap())?;
        if m[piv][col].abs() < 1e-6 {
            return None;
        }
        m.swap(col, piv);
        for r in 0..dim {
            if r != col {
                let f = m[r][col] / m[col][col];
                for k in col..2 * dim {
                    m[r][k] -= f * m[col][k];
                }
            }
        }
    }
    // A[i][j] = m[i][dim + j] / m[i][i] / diag[i]
    let a: Vec<Vec<f64>> = (0..dim).map(|i| (0..dim).map(|j| m[i][dim + j] / m[i][i] / diag[i]).collect()).collect();
    let tmax = pairs.iter().flat_map(|(_, t)| t.iter()).fold(0.0f64, |mx, x| mx.max(x.abs()));
    if !(tmax > 0.0) {
        return None;
    }
    let mut worst = 0.0f64;
    for (g, t) in pairs {
        for j in 0..dim {
            let pred: f64 = (0..dim).map(|i| g[i] * a[i][j]).sum();
            worst = worst.max((pred - t[j]).abs() / tmax);
        }
    }
    Some(worst)
}
