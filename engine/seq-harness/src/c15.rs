//! C15 — flushed Zarr traces are complete at every flush point.
//!
//! Crash-point enumeration on the real Zarr writers, driven through the storage trait seam:
//!   history  = record(warmup)^a . record(sample)^b on 1 or 2 chains (rows of real chains),
//!   choices  = the subset F of positions after which flush() is called (every subset),
//!              the chunk size (1, smaller than / equal to / larger than / not dividing a and b),
//!              the writer: sync over a memory store, sync over a filesystem store, async over an
//!              in-memory object store behind a gate that HOLDS chunk writes (write-queue timing),
//!   crash points = the store as a fresh reader finds it after every record, every flush and after
//!              finalisation (memory: re-opened arrays; filesystem: a new store object over the
//!              directory; async: a copy of the object store taken at that moment).
//! Oracles (per crash point, per chain, per statistic / draw variable, per phase):
//!   complete-after-flush : right after flush() returned, every row recorded so far is readable,
//!   flushed-data-intact  : at every later crash point the rows covered by the last flush still read
//!                          back unchanged (later recording / flushing / finalising never corrupts),
//!   complete-after-finalize.
//! Write-queue timing of the async writer is owned through the gate: a held chunk write stays
//! invisible until the harness has performed `hold` further operations; a write that the writer
//! itself waits for (full queue, flush, finalize) is released after the harness call has been
//! blocked for 30 ms, so the correct writer always terminates and a writer that does not wait for
//! its queue is caught with the write still missing.

use std::collections::HashMap;
use std::sync::atomic::{AtomicU64, Ordering};
use std::sync::{Arc, Mutex};
use std::time::{Duration, Instant};

use mc_core::{Partial, Report, Tier};
use nuts_rs::verif::{ChainStorage, StorageConfig, TraceStorage};
use nuts_rs::{CpuMath, ItemType, Settings, ZarrAsyncConfig, ZarrConfig};
use serde_json::json;
use zarrs::storage::byte_range::ByteRangeIterator;
use zarrs::storage::{
    AsyncListableStorageTraits, AsyncMaybeBytesIterator, AsyncReadableStorageTraits, AsyncWritableStorageTraits, Bytes, MaybeBytes, OffsetBytesIterator,
    StorageError, StoreKey, StoreKeys, StoreKeysPrefixes, StorePrefix,
};

use crate::c14::{cells_of, feed, make_rows, read_zarr_sync, Cell, Col, RRow, ReadBack, RichDens, SetChains};
use crate::common::models::FaultKind;
use crate::common::runner::{panic_msg, Preset, Tweaks};
use crate::with_settings;

// ---------------------------------------------------------------------------------------------
// the gate: owned completion timing of the async writer's chunk writes
// ---------------------------------------------------------------------------------------------

pub struct Gate {
    /// number of further harness operations a selected chunk write stays held (u64::MAX: until forced)
    hold: u64,
    /// 0: every chunk write, 1: odd-numbered, 2: even-numbered chunk writes
    sel: u8,
    epoch: AtomicU64,
    issued: AtomicU64,
    op_start: Mutex<Option<Instant>>,
    pub held: AtomicU64,
    pub forced: AtomicU64,
}

impl Gate {
    fn new(hold: u64, sel: u8) -> Self {
        Gate { hold, sel, epoch: AtomicU64::new(0), issued: AtomicU64::new(0), op_start: Mutex::new(None), held: AtomicU64::new(0), forced: AtomicU64::new(0) }
    }
    fn begin_op(&self) {
        *self.op_start.lock().unwrap() = Some(Instant::now());
    }
    fn end_op(&self) {
        *self.op_start.lock().unwrap() = None;
        self.epoch.fetch_add(1, Ordering::SeqCst);
    }
    async fn wait(&self, key: &StoreKey) {
        if self.hold == 0 || !key.as_str().contains("/c/") {
            return;
        }
        let i = self.issued.fetch_add(1, Ordering::SeqCst);
        let selected = match self.sel {
            0 => true,
            1 => i % 2 == 1,
            _ => i % 2 == 0,
        };
        if !selected {
            return;
        }
        let start = self.epoch.load(Ordering::SeqCst);
        self.held.fetch_add(1, Ordering::SeqCst);
        loop {
            if self.hold != u64::MAX && self.epoch.load(Ordering::SeqCst) >= start + self.hold {
                break;
            }
            let blocked = self.op_start.lock().unwrap().map(|t| t.elapsed() > Duration::from_millis(30)).unwrap_or(false);
            if blocked {
                self.forced.fetch_add(1, Ordering::SeqCst);
                break;
            }
            tokio::task::yield_now().await;
        }
    }
}

type Inner = zarrs_object_store::AsyncObjectStore<Arc<object_store::memory::InMemory>>;

pub struct GateStore {
    inner: Inner,
    gate: Arc<Gate>,
}

#[async_trait::async_trait]
impl AsyncReadableStorageTraits for GateStore {
    async fn get(&self, key: &StoreKey) -> Result<MaybeBytes, StorageError> {
        self.inner.get(key).await
    }
    async fn get_partial_many<'a>(&'a self, key: &StoreKey, byte_ranges: ByteRangeIterator<'a>) -> Result<AsyncMaybeBytesIterator<'a>, StorageError> {
        self.inner.get_partial_many(key, byte_ranges).await
    }
    async fn size_key(&self, key: &StoreKey) -> Result<Option<u64>, StorageError> {
        self.inner.size_key(key).await
    }
    fn supports_get_partial(&self) -> bool {
        self.inner.supports_get_partial()
    }
}

#[async_trait::async_trait]
impl AsyncWritableStorageTraits for GateStore {
    async fn set(&self, key: &StoreKey, value: Bytes) -> Result<(), StorageError> {
        self.gate.wait(key).await;
        self.inner.set(key, value).await
    }
    async fn set_partial_many<'a>(&'a self, key: &StoreKey, offset_values: OffsetBytesIterator<'a>) -> Result<(), StorageError> {
        zarrs::storage::async_store_set_partial_many(self, key, offset_values).await
    }
    async fn erase(&self, key: &StoreKey) -> Result<(), StorageError> {
        self.inner.erase(key).await
    }
    async fn erase_prefix(&self, prefix: &StorePrefix) -> Result<(), StorageError> {
        self.inner.erase_prefix(prefix).await
    }
    fn supports_set_partial(&self) -> bool {
        false
    }
}

#[async_trait::async_trait]
impl AsyncListableStorageTraits for GateStore {
    async fn list(&self) -> Result<StoreKeys, StorageError> {
        self.inner.list().await
    }
    async fn list_prefix(&self, prefix: &StorePrefix) -> Result<StoreKeys, StorageError> {
        self.inner.list_prefix(prefix).await
    }
    async fn list_dir(&self, prefix: &StorePrefix) -> Result<StoreKeysPrefixes, StorageError> {
        self.inner.list_dir(prefix).await
    }
    async fn size_prefix(&self, prefix: &StorePrefix) -> Result<u64, StorageError> {
        self.inner.size_prefix(prefix).await
    }
    async fn size(&self) -> Result<u64, StorageError> {
        self.inner.size().await
    }
}

// ---------------------------------------------------------------------------------------------
// scenarios
// ---------------------------------------------------------------------------------------------

#[derive(Clone, Copy, Debug, PartialEq, Eq)]
pub enum Writer {
    SyncMem,
    SyncFs,
    /// async writer, chunk writes held for `hold` operations (0 = never, 255 = until forced), selector
    Async { hold: u8, sel: u8 },
}

#[derive(Clone, Debug)]
pub struct Scenario {
    pub preset: Preset,
    pub writer: Writer,
    pub a: usize,
    pub b: usize,
    pub chains: usize,
    pub chunk: u64,
    /// bit k: flush (all chains) after row k has been recorded
    pub flush_mask: u32,
    /// only chain 0 is flushed (chain 1 then has no guarantee)
    pub flush_first_chain_only: bool,
    pub div_mask: u32,
}

impl Scenario {
    fn name(&self) -> String {
        format!("{:?}/{:?}/a{}b{}/chains{}/chunk{}/flush{:b}{}/div{:b}", self.writer, self.preset, self.a, self.b, self.chains, self.chunk, self.flush_mask, if self.flush_first_chain_only { "-chain0only" } else { "" }, self.div_mask)
    }
    fn group(&self) -> String {
        let w = match self.writer {
            Writer::SyncMem => "SyncMem".to_string(),
            Writer::SyncFs => "SyncFs".to_string(),
            Writer::Async { hold, sel } => format!("Async-hold{hold}-sel{sel}"),
        };
        format!("{w}/{:?}", self.preset)
    }
}

struct Schema {
    stats: Vec<(String, ItemType, bool)>,
    draws: Vec<(String, ItemType)>,
}

/// first mismatch between what a fresh reader sees and the first `upto[c]` recorded rows of chain c
fn mismatch(schema: &Schema, rows: &[Vec<RRow>], upto: &[usize], rb: &ReadBack) -> Option<String> {
    for (c, chain_rows) in rows.iter().enumerate() {
        let recorded = &chain_rows[..upto[c]];
        let vars: Vec<(bool, String, bool)> = schema.stats.iter().map(|(n, _, e)| (true, n.clone(), *e)).chain(schema.draws.iter().map(|(n, _)| (false, n.clone(), false))).collect();
        for (is_stat, var, is_event) in &vars {
            if var == "draw" || var == "chain" {
                continue;
            }
            for (phase, subset) in [("warmup", recorded.iter().filter(|r| r.tuning).collect::<Vec<_>>()), ("sample", recorded.iter().filter(|r| !r.tuning).collect::<Vec<_>>())] {
                let exp: Vec<Option<Vec<Cell>>> = subset
                    .iter()
                    .map(|r| {
                        let src = if *is_stat { &r.stats } else { &r.draws };
                        src.iter().find(|(k, _)| k == var).and_then(|(_, v)| v.as_ref()).map(cells_of)
                    })
                    .collect();
                let Some(Col::Dense(got)) = rb.get(&(c, *is_stat, format!("{var}#{phase}"))) else {
                    return Some(format!("chain {c}: array {var} ({phase}) cannot be read"));
                };
                if *is_event {
                    let present: Vec<Vec<Cell>> = exp.iter().flatten().cloned().collect();
                    if got.len() < present.len() || got[..present.len()] != present[..] {
                        return Some(format!("chain {c} {var} {phase}: {} events recorded, reader sees {:?} (expected {:?})", present.len(), got.iter().take(present.len().max(1)).collect::<Vec<_>>(), present));
                    }
                } else {
                    for (r, e) in exp.iter().enumerate() {
                        let Some(e) = e else { continue };
                        if got.get(r) != Some(e) {
                            return Some(format!("chain {c} {var} {phase} row {r} of {}: reader sees {:?}, recorded {:?}", exp.len(), got.get(r), e));
                        }
                    }
                }
            }
        }
    }
    None
}

fn short(s: &str) -> String {
    s.chars().filter(|c| c.is_ascii_alphanumeric() || *c == ' ').take(50).collect::<String>().replace(' ', "-")
}

fn run_scenario<S: Settings>(sc: &Scenario, settings: &S, p: &mut Partial) {
    let name = sc.name();
    let replay = json!({"scenario": format!("{sc:?}"), "name": name});
    let n = sc.a + sc.b;
    let mut rows: Vec<Vec<RRow>> = vec![];
    for c in 0..sc.chains {
        let Ok(base) = make_rows(settings, c as u64, n, vec![], false) else { return };
        let faults: Vec<(u64, FaultKind)> = (0..n).filter(|k| sc.div_mask >> k & 1 == 1).map(|k| (base.1[k] + 1, if k % 2 == 0 { FaultKind::Recoverable } else { FaultKind::HugeDrop })).collect();
        let r = if faults.is_empty() {
            base.0
        } else {
            match make_rows(settings, c as u64, n, faults, false) {
                Ok(r) => r.0,
                Err(_) => return,
            }
        };
        rows.push(r);
    }
    let math = CpuMath::new(RichDens::new(vec![]));
    let ev: HashMap<String, Option<String>> = settings.stat_event_dims(&math).into_iter().collect();
    let schema = Schema {
        stats: settings.stat_types(&math).into_iter().map(|(n, t)| { let e = ev.get(&n).cloned().flatten().is_some(); (n, t, e) }).collect(),
        draws: settings.data_types(&math),
    };
    p.evaluations += 1;
    let res = std::panic::catch_unwind(std::panic::AssertUnwindSafe(|| drive(sc, settings, &math, &schema, &rows, p)));
    match res {
        Err(pn) => p.violation(format!("C15/writer-panicked/{}/{}", sc.group(), short(&panic_msg(&pn))), format!("{name}: {}", panic_msg(&pn)), replay),
        Ok(Err(e)) => p.violation(format!("C15/writer-returned-error/{}/{}", sc.group(), short(&e)), format!("{name}: {e}"), replay),
        Ok(Ok(Some((oracle, detail)))) => p.violation(format!("C15/{oracle}/{}", sc.group()), format!("{name}: {detail}"), replay),
        Ok(Ok(None)) => {}
    }
    let chunk_rel = |m: usize| -> &'static str {
        let c = sc.chunk as usize;
        if m == 0 { "none" } else if c == 1 { "chunk1" } else if m < c { "below" } else if m == c { "equal" } else if m % c == 0 { "multiple" } else { "not-dividing" }
    };
    p.class(format!("{}:warmup-{}:sample-{}:flushes{}", sc.group(), chunk_rel(sc.a), chunk_rel(sc.b), sc.flush_mask.count_ones().min(2)));
}

/// Ok(Some((oracle, detail))) = a violation
fn drive<S: Settings>(sc: &Scenario, settings: &S, math: &CpuMath<RichDens>, schema: &Schema, rows: &[Vec<RRow>], p: &mut Partial) -> Result<Option<(String, String)>, String> {
    let e2s = |e: anyhow::Error| format!("{e:#}");
    let n = sc.a + sc.b;
    // the steps shared by all writers: `snapshot` yields what a fresh reader sees now
    macro_rules! steps {
        ($trace:expr, $snapshot:expr, $begin:expr, $end:expr) => {{
            let trace = $trace;
            let begin = $begin;
            let end = $end;
            let snapshot = $snapshot;
            let mut css = vec![];
            for c in 0..sc.chains {
                css.push(trace.initialize_trace_for_chain(c as u64).map_err(e2s)?);
            }
            // rows of each chain covered by its last flush
            let mut flushed: Vec<usize> = vec![0; sc.chains];
            let mut any_flush = false;
            for k in 0..n {
                for c in 0..sc.chains {
                    begin();
                    p.transitions += 1;
                    let r = feed(&mut css[c], settings, &rows[c][k]);
                    end();
                    r.map_err(|e| format!("record_sample row {k}: {e:#}"))?;
                }
                if any_flush {
                    p.count("crash_points", 1);
                    p.states += 1;
                    let rb: ReadBack = snapshot()?;
                    if let Some(d) = mismatch(schema, rows, &flushed, &rb) {
                        return Ok(Some(("flushed-data-corrupted-by-later-recording".to_string(), format!("after recording row {k}: {d}"))));
                    }
                }
                if sc.flush_mask >> k & 1 == 1 {
                    for c in 0..sc.chains {
                        if c > 0 && sc.flush_first_chain_only {
                            continue;
                        }
                        begin();
                    p.transitions += 1;
                        let r = css[c].flush();
                        end();
                        r.map_err(|e| format!("flush after row {k}: {e:#}"))?;
                        flushed[c] = k + 1;
                    }
                    any_flush = true;
                    p.count("crash_points", 1);
                    p.states += 1;
                    p.count("flush_points", 1);
                    let rb: ReadBack = snapshot()?;
                    if let Some(d) = mismatch(schema, rows, &flushed, &rb) {
                        return Ok(Some(("incomplete-after-flush".to_string(), format!("after the flush that follows row {k}: {d}"))));
                    }
                }
            }
            let mut finals = vec![];
            for cs in css {
                begin();
                    p.transitions += 1;
                let f = cs.finalize();
                end();
                finals.push(f);
                if any_flush {
                    p.count("crash_points", 1);
                    p.states += 1;
                    let rb: ReadBack = snapshot()?;
                    if let Some(d) = mismatch(schema, rows, &flushed, &rb) {
                        return Ok(Some(("flushed-data-corrupted-by-finalisation".to_string(), format!("after finalising a chain: {d}"))));
                    }
                }
            }
            begin();
                    p.transitions += 1;
            let fin = trace.finalize(finals);
            end();
            let (err, _) = fin.map_err(e2s)?;
            if let Some(e) = err {
                return Err(format!("finalize reported: {e:#}"));
            }
            p.count("crash_points", 1);
                    p.states += 1;
            let rb: ReadBack = snapshot()?;
            if let Some(d) = mismatch(schema, rows, &vec![n; sc.chains], &rb) {
                return Ok(Some(("incomplete-after-finalize".to_string(), d)));
            }
        }};
    }
    match sc.writer {
        Writer::SyncMem => {
            let m = Arc::new(zarrs::storage::store::MemoryStore::new());
            let trace = ZarrConfig::new(m.clone()).with_chunk_size(sc.chunk).new_trace(settings, math).map_err(e2s)?;
            let snapshot = || -> Result<ReadBack, String> {
                let reader: Arc<dyn zarrs::storage::ReadableListableStorageTraits> = m.clone();
                read_zarr_sync(reader, &schema.stats, &schema.draws, sc.chains)
            };
            steps!(trace, snapshot, || {}, || {});
        }
        Writer::SyncFs => {
            let tmp = tempfile::tempdir_in(mc_core::verif_root().join(".build")).map_err(|e| e.to_string())?;
            let s = Arc::new(zarrs::filesystem::FilesystemStore::new(tmp.path()).map_err(|e| e.to_string())?);
            let trace = ZarrConfig::new(s.clone()).with_chunk_size(sc.chunk).new_trace(settings, math).map_err(e2s)?;
            let path = tmp.path().to_path_buf();
            let snapshot = || -> Result<ReadBack, String> {
                // a new store object over the directory: nothing cached by the writer's store is used
                let fresh = Arc::new(zarrs::filesystem::FilesystemStore::new(&path).map_err(|e| e.to_string())?);
                let reader: Arc<dyn zarrs::storage::ReadableListableStorageTraits> = fresh;
                read_zarr_sync(reader, &schema.stats, &schema.draws, sc.chains)
            };
            steps!(trace, snapshot, || {}, || {});
            drop(tmp);
        }
        Writer::Async { hold, sel } => {
            let rt = tokio::runtime::Builder::new_multi_thread().worker_threads(1).enable_all().build().map_err(|e| e.to_string())?;
            let os = Arc::new(object_store::memory::InMemory::new());
            let gate = Arc::new(Gate::new(if hold == 255 { u64::MAX } else { hold as u64 }, sel));
            let store = Arc::new(GateStore { inner: zarrs_object_store::AsyncObjectStore::new(os.clone()), gate: gate.clone() });
            let trace = ZarrAsyncConfig::new(rt.handle().clone(), store).with_chunk_size(sc.chunk).new_trace(settings, math).map_err(e2s)?;
            let snapshot = || -> Result<ReadBack, String> {
                let mem = Arc::new(zarrs::storage::store::MemoryStore::new());
                rt.block_on(crate::c14::futures_lite_shim::copy_object_store(os.clone(), mem.clone()))?;
                let reader: Arc<dyn zarrs::storage::ReadableListableStorageTraits> = mem;
                read_zarr_sync(reader, &schema.stats, &schema.draws, sc.chains)
            };
            let g1 = gate.clone();
            let g2 = gate.clone();
            steps!(trace, snapshot, || g1.begin_op(), || g2.end_op());
            p.count("async_chunk_writes_held", gate.held.load(Ordering::SeqCst));
            p.count("async_held_writes_released_because_the_writer_waited", gate.forced.load(Ordering::SeqCst));
        }
    }
    Ok(None)
}

pub fn run(tier: Tier, _replay: Option<String>) -> i32 {
    let mut report = Report::new(
        "C15",
        tier,
        "model_checking",
        "writers {sync/memory, sync/filesystem, async/object store behind a write gate: chunk writes held for {0, 1, 2, until the writer waits} operations x {all, odd, even} writes} x (a warmup, b sampling rows), a,b in 0..=2 (0..=3) x chunk sizes {1,2,3,100} ({1,2,3,4,5,100}) x EVERY subset of flush positions x chains {1,2} x {all chains flushed, chain 0 only}; crash points = after every record, flush, chain finalisation and trace finalisation, each read by a fresh reader; oracles complete-after-flush / flushed-data-intact / complete-after-finalize per chain, variable and phase. distinct = (writer timing, preset, chunk-size relation to a and to b, number of flushes) classes",
    );
    report.assume("a crash is modelled as the store contents at an operation boundary (the property speaks of a process that stops after a flush); torn writes inside one store key are outside the property");
    report.assume("async write-queue timing is owned at the store seam (hold / release of chunk writes); the order in which the tokio worker polls tasks that are runnable at the same time is not enumerated");
    let presets: Vec<Preset> = tier.pick(vec![Preset::DiagNuts], vec![Preset::DiagNuts, Preset::LowRankNuts, Preset::DiagMclmc]);
    let maxab = tier.pick(2usize, 3);
    let chunks: Vec<u64> = tier.pick(vec![1, 2, 3, 100], vec![1, 2, 3, 4, 5, 100]);
    let mut writers = vec![Writer::SyncMem, Writer::SyncFs, Writer::Async { hold: 0, sel: 0 }];
    for hold in [1u8, 2, 255] {
        for sel in [0u8, 1, 2] {
            if tier == Tier::Quick && sel == 2 {
                continue;
            }
            writers.push(Writer::Async { hold, sel });
        }
    }
    let mut scs = vec![];
    for &preset in &presets {
        for &writer in &writers {
            // quick: a,b <= 2 plus three longer histories whose second chunk stays partial
            let mut abs: Vec<(usize, usize)> = vec![];
            for a in 0..=maxab {
                for b in 0..=maxab {
                    abs.push((a, b));
                }
            }
            if tier == Tier::Quick {
                abs.extend([(0usize, 3usize), (3, 0), (1, 3)]);
            }
            for (a, b) in abs {
                {
                    let n = a + b;
                    if n == 0 {
                        continue;
                    }
                    for &chunk in &chunks {
                        if (a > maxab || b > maxab) && chunk != 2 {
                            continue;
                        }
                        for chains in [1usize, 2] {
                            for flush_mask in 0..(1u32 << n) {
                                // the filesystem store and the second chain get a reduced menu
                                if writer == Writer::SyncFs && !(chunk == 2 || chunk == 3) {
                                    continue;
                                }
                                if chains == 2 && (flush_mask.count_ones() > 2 || chunk == 100 || (tier == Tier::Quick && matches!(writer, Writer::Async { hold, .. } if hold == 2))) {
                                    continue;
                                }
                                if preset != Preset::DiagNuts && (chains == 2 || flush_mask.count_ones() > 2) {
                                    continue;
                                }
                                let div_mask = if n >= 2 { 0b10 } else { 0 };
                                scs.push(Scenario { preset, writer, a, b, chains, chunk, flush_mask, flush_first_chain_only: false, div_mask });
                                if chains == 2 && flush_mask != 0 && writer == Writer::SyncMem {
                                    scs.push(Scenario { preset, writer, a, b, chains, chunk, flush_mask, flush_first_chain_only: true, div_mask });
                                }
                            }
                        }
                    }
                }
            }
        }
    }
    report.bounds = json!({"scenarios": scs.len(), "max_rows_per_phase": maxab, "chunk_sizes": chunks, "writers": writers.len()});
    let _ = std::fs::create_dir_all(mc_core::verif_root().join(".build"));
    mc_core::par_for_each(&scs, |i, sc| {
        let mut p = Partial::new();
        let mut t = Tweaks::default();
        t.num_tune = sc.a as u64;
        t.num_draws = sc.b as u64;
        t.maxdepth = Some(3);
        t.store_divergences = true;
        t.store_unconstrained = true;
        t.store_gradient = true;
        t.store_mass_matrix = true;
        t.dynamic_step_size = Some(false);
        t.mclmc_length = Some(1.0);
        t.early_switch_freq = Some(2);
        with_settings!(sc.preset, &t, |s| {
            let mut s = s;
            SetChains::set(&mut s, sc.chains);
            run_scenario(sc, &s, &mut p);
        });
        if i % 997 == 5 {
            p.sample(json!({"scenario": sc.name()}));
        }
        report.merge(p);
    });
    report.finish()
}
