//! C15 — flushed Zarr traces are complete at every flush point.
//!
//! Crash-point enumeration on the real Zarr writers, driven through the storage trait seam:
//!   history  = record(warmup)^a . record(sample)^b on 1 or 2 chains (rows of real chains),
//!   choices  = the subset F of positions after which flush() is called (every subset),
//!              the chunk size (1, smaller than / equal to / larger than / not dividing a and b),
//!              the writer: sync over a memory store, sync over a filesystem store, async over an
//!              in-memory object store behind a gate that HOLDS chunk writes (write-queue timing),
//!   crash points = the store as a fresh reader finds it after every record, every flush and after
//!              finalisation (memory: re-opened arrays; filesystem: a new store object over the
//!              directory; async: a copy of the object store taken at that moment).
//! Oracles (per crash point, per chain, per statistic / draw variable, per phase):
//!   complete-after-flush : right after flush() returned, every row recorded so far is readable,
//!   flushed-data-intact  : at every later crash point the rows covered by the last flush still read
//!                          back unchanged (later recording / flushing / finalising never corrupts),
//!   complete-after-finalize.
//! Write-queue timing of the async writer is owned through the gate: a held chunk write stays
//! invisible until the harness has performed `hold` further operations; a write that the writer
//! itself waits for (full queue, flush, finalize) is released after the harness call has been
//! blocked for 30 ms, so the correct writer always terminates and a writer that does not wait for
//! its queue is caught with the write still missing.

use std::collections::HashMap;
use std::sync::atomic::{AtomicU64, Ordering};
use std::sync::{Arc, Mutex};
use std::time::{Duration, Instant};

use mc_core::{Partial, Report, Tier};
use nuts_rs::verif::{ChainStorage, StorageConfig, TraceStorage};
use nuts_rs::{CpuMath, ItemType, Settings, ZarrAsyncConfig, ZarrConfig};
use serde_json::json;
use zarrs::storage::byte_range::ByteRangeIterator;
use zarrs::storage::{
    AsyncListableStorageTraits, AsyncMaybeBytesIterator, AsyncReadableStorageTraits, AsyncWritableStorageTraits, Bytes, MaybeBytes, OffsetBytesIterator,
    StorageError, StoreKey, StoreKeys, StoreKeysPrefixes, StorePrefix,
};

use crate::c14::{cells_of, feed, make_rows, read_zarr_sync, Cell, Col, RRow, ReadBack, RichDens, SetChains};
use crate::common::models::FaultKind;
use crate::common::runner::{panic_msg, Preset, Tweaks};
use crate::with_settings;

// ---------------------------------------------------------------------------------------------
// the gate: owned completion timing of the async writer's chunk writes
// ---------------------------------------------------------------------------------------------

pub struct Gate {
    /// number of further harness operations a selected chunk write stays held (u64::MAX: until forced)
    hold: u64,
    /// 0: every chunk write, 1: odd-numbered, 2: even-numbered chunk writes
    sel: u8,
    epoch: AtomicU64,
    issued: AtomicU64,
    op_start: Mutex<Option<Instant>>,
    pub held: AtomicU64,
    pub forced: AtomicU64,
    /// the chunk write with this number (in the order the store sees them) fails, once
    fail_at: Option<u64>,
    sets: AtomicU64,
    pub failed: AtomicU64,
}

pub const INJECTED_WRITE_FAILURE: &str = "INJECTED-WRITE-FAILURE";

impl Gate {
    fn new(hold: u64, sel: u8) -> Self {
        Gate { hold, sel, epoch: AtomicU64::new(0), issued: AtomicU64::new(0), op_start: Mutex::new(None), held: AtomicU64::new(0), forced: AtomicU64::new(0), fail_at: None, sets: AtomicU64::new(0), failed: AtomicU64::new(0) }
    }
    fn failing(at: u64) -> Self {
        Gate { fail_at: Some(at), ..Gate::new(0, 0) }
    }
    fn begin_op(&self) {
        *self.op_start.lock().unwrap() = Some(Instant::now());
    }
    fn end_op(&self) {
        *self.op_start.lock().unwrap() = None;
        self.epoch.fetch_add(1, Ordering::SeqCst);
    }
    async fn wait(&self, key: &StoreKey) {
        if self.hold == 0 || !key.as_str().contains("/c/") {
            return;
        }
        let i = self.issued.fetch_add(1, Ordering::SeqCst);
        let selected = match self.sel {
            0 => true,
            1 => i % 2 == 1,
            _ => i % 2 == 0,
        };
        if !selected {
            return;
        }
        let start = self.epoch.load(Ordering::SeqCst);
        self.held.fetch_add(1, Ordering::SeqCst);
        loop {
            if self.hold != u64::MAX && self.epoch.load(Ordering::SeqCst) >= start + self.hold {
                break;
            }
            let blocked = self.op_start.lock().unwrap().map(|t| t.elapsed() > Duration::from_millis(30)).unwrap_or(false);
            if blocked {
                self.forced.fetch_add(1, Ordering::SeqCst);
                break;
            }
            tokio::task::yield_now().await;
        }
    }
}

type Inner = zarrs_object_store::AsyncObjectStore<Arc<object_store::memory::InMemory>>;

pub struct GateStore {
    inner: Inner,
    gate: Arc<Gate>,
}

#[async_trait::async_trait]
impl AsyncReadableStorageTraits for GateStore {
    async fn get(&self, key: &StoreKey) -> Result<MaybeBytes, StorageError> {
        self.inner.get(key).await
    }
    async fn get_partial_many<'a>(&'a self, key: &StoreKey, byte_ranges: ByteRangeIterator<'a>) -> Result<AsyncMaybeBytesIterator<'a>, StorageError> {
        self.inner.get_partial_many(key, byte_ranges).await
    }
    async fn size_key(&self, key: &StoreKey) -> Result<Option<u64>, StorageError> {
        self.inner.size_key(key).await
    }
    fn supports_get_partial(&self) -> bool {
        self.inner.supports_get_partial()
    }
}

#[async_trait::async_trait]
impl AsyncWritableStorageTraits for GateStore {
    async fn set(&self, key: &StoreKey, value: Bytes) -> Result<(), StorageError> {
        if key.as_str().contains("/c/") {
            let i = self.gate.sets.fetch_add(1, Ordering::SeqCst);
            if self.gate.fail_at == Some(i) {
                self.gate.failed.fetch_add(1, Ordering::SeqCst);
                return Err(StorageError::Other(format!("{INJECTED_WRITE_FAILURE}: chunk write {i} ({})", key.as_str())));
            }
        }
        self.gate.wait(key).await;
        self.inner.set(key, value).await
    }
    async fn set_partial_many<'a>(&'a self, key: &StoreKey, offset_values: OffsetBytesIterator<'a>) -> Result<(), StorageError> {
        zarrs::storage::async_store_set_partial_many(self, key, offset_values).await
    }
    async fn erase(&self, key: &StoreKey) -> Result<(), StorageError> {
        self.inner.erase(key).await
    }
    async fn erase_prefix(&self, prefix: &StorePrefix) -> Result<(), StorageError> {
        self.inner.erase_prefix(prefix).await
    }
    fn supports_set_partial(&self) -> bool {
        false
    }
}

#[async_trait::async_trait]
impl AsyncListableStorageTraits for GateStore {
    async fn list(&self) -> Result<StoreKeys, StorageError> {
        self.inner.list().await
    }
    async fn list_prefix(&self, prefix: &StorePrefix) -> Result<StoreKeys, StorageError> {
        self.inner.list_prefix(prefix).await
    }
    async fn list_dir(&self, prefix: &StorePrefix) -> Result<StoreKeysPrefixes, StorageError> {
        self.inner.list_dir(prefix).await
    }
    async fn size_prefix(&self, prefix: &StorePrefix) -> Result<u64, StorageError> {
        self.inner.size_prefix(prefix).await
    }
    async fn size(&self) -> Result<u64, StorageError> {
        self.inner.size().await
    }
}

// ---------------------------------------------------------------------------------------------
// scenarios
// ---------------------------------------------------------------------------------------------

#[derive(Clone, Copy, Debug, PartialEq, Eq)]
pub enum Writer {
    SyncMem,
    SyncFs,
    /// async writer, chunk writes held for `hold` operations (0 = never, 255 = until forced), selector
    Async { hold: u8, sel: u8 },
    /// async writer over a store whose `at`-th chunk write fails once (a transient I/O error)
    AsyncFail { at: u16 },
}

#[derive(Clone, Debug)]
pub struct Scenario {
    pub preset: Preset,
    pub writer: Writer,
    pub a: usize,
    pub b: usize,
    pub chains: usize,
    pub chunk: u64,
    /// bit k: flush (all chains) after row k has been recorded
    pub flush_mask: u32,
    /// only chain 0 is flushed (chain 1 then has no guarantee)
    pub flush_first_chain_only: bool,
    pub div_mask: u32,
    /// `store_warmup` option of the writer (false: only the sampling phase is stored)
    pub store_warmup: bool,
}

impl Scenario {
    fn name(&self) -> String {
        format!("{:?}/{:?}/a{}b{}/chains{}/chunk{}/flush{:b}{}/div{:b}", self.writer, self.preset, self.a, self.b, self.chains, self.chunk, self.flush_mask, if self.flush_first_chain_only { "-chain0only" } else { "" }, self.div_mask) + if self.store_warmup { "" } else { "/nowarmup" }
    }
    fn group(&self) -> String {
        let w = match self.writer {
            Writer::SyncMem => "SyncMem".to_string(),
            Writer::SyncFs => "SyncFs".to_string(),
            Writer::Async { hold, sel } => format!("Async-hold{hold}-sel{sel}"),
            Writer::AsyncFail { .. } => "Async-write-failure".to_string(),
        };
        format!("{w}/{:?}", self.preset)
    }
}

struct Schema {
    stats: Vec<(String, ItemType, bool)>,
    draws: Vec<(String, ItemType)>,
}

/// first mismatch between what a fresh reader sees and the first `upto[c]` recorded rows of chain c
fn mismatch(schema: &Schema, rows: &[Vec<RRow>], upto: &[usize], rb: &ReadBack, store_warmup: bool) -> Option<String> {
    for (c, chain_rows) in rows.iter().enumerate() {
        let recorded = &chain_rows[..upto[c]];
        let vars: Vec<(bool, String, bool)> = schema.stats.iter().map(|(n, _, e)| (true, n.clone(), *e)).chain(schema.draws.iter().map(|(n, _)| (false, n.clone(), false))).collect();
        for (is_stat, var, is_event) in &vars {
            if var == "draw" || var == "chain" {
                continue;
            }
            for (phase, subset) in [("warmup", recorded.iter().filter(|r| r.tuning).collect::<Vec<_>>()), ("sample", recorded.iter().filter(|r| !r.tuning).collect::<Vec<_>>())] {
                if phase == "warmup" && !store_warmup {
                    continue;
                }
                let exp: Vec<Option<Vec<Cell>>> = subset
                    .iter()
                    .map(|r| {
                        let src = if *is_stat { &r.stats } else { &r.draws };
                        src.iter().find(|(k, _)| k == var).and_then(|(_, v)| v.as_ref()).map(cells_of)
                    })
                    .collect();
                let Some(Col::Dense(got)) = rb.get(&(c, *is_stat, format!("{var}#{phase}"))) else {
                    return Some(format!("chain {c}: array {var} ({phase}) cannot be read"));
                };
                if *is_event {
                    let present: Vec<Vec<Cell>> = exp.iter().flatten().cloned().collect();
                    if got.len() < present.len() || got[..present.len()] != present[..] {
                        return Some(format!("chain {c} {var} {phase}: {} events recorded, reader sees {:?} (expected {:?})", present.len(), got.iter().take(present.len().max(1)).collect::<Vec<_>>(), present));
                    }
                } else {
                    for (r, e) in exp.iter().enumerate() {
                        let Some(e) = e else { continue };
                        if got.get(r) != Some(e) {
                            return Some(format!("chain {c} {var} {phase} row {r} of {}: reader sees {:?}, recorded {:?}", exp.len(), got.get(r), e));
                        }
                    }
                }
            }
        }
    }
    None
}

fn short(s: &str) -> String {
    s.chars().filter(|c| c.is_ascii_alphanumeric() || *c == ' ').take(50).collect::<String>().replace(' ', "-")
}

fn run_scenario<S: Settings>(sc: &Scenario, settings: &S, p: &mut Partial) {
    let name = sc.name();
    let replay = json!({"scenario": format!("{sc:?}"), "name": name});
    let n = sc.a + sc.b;
    let mut rows: Vec<Vec<RRow>> = vec![];
    for c in 0..sc.chains {
        let Ok(base) = make_rows(settings, c as u64, n, vec![], false) else { return };
        let faults: Vec<(u64, FaultKind)> = (0..n).filter(|k| sc.div_mask >> k & 1 == 1).map(|k| (base.1[k] + 1, if k % 2 == 0 { FaultKind::Recoverable } else { FaultKind::HugeDrop })).collect();
        let r = if faults.is_empty() {
            base.0
        } else {
            match make_rows(settings, c as u64, n, faults, false) {
                Ok(r) => r.0,
                Err(_) => return,
            }
        };
        rows.push(r);
    }
    let math = CpuMath::new(RichDens::new(vec![]));
    let ev: HashMap<String, Option<String>> = settings.stat_event_dims(&math).into_iter().collect();
    let schema = Schema {
        stats: settings.stat_types(&math).into_iter().map(|(n, t)| { let e = ev.get(&n).cloned().flatten().is_some(); (n, t, e) }).collect(),
        draws: settings.data_types(&math),
    };
    p.evaluations += 1;
    let res = std::panic::catch_unwind(std::panic::AssertUnwindSafe(|| drive(sc, settings, &math, &schema, &rows, p)));
    match res {
        Err(pn) => p.violation(format!("C15/writer-panicked/{}/{}", sc.group(), short(&panic_msg(&pn))), format!("{name}: {}", panic_msg(&pn)), replay),
        // an injected write failure that comes back as an error of record / flush / finalize has
        // surfaced: nothing was promised for that run
        Ok(Err(e)) if matches!(sc.writer, Writer::AsyncFail { .. }) && e.contains(INJECTED_WRITE_FAILURE) => p.count("injected_write_failures_reported_by_the_writer", 1),
        Ok(Err(e)) => p.violation(format!("C15/writer-returned-error/{}/{}", sc.group(), short(&e)), format!("{name}: {e}"), replay),
        Ok(Ok(Some((oracle, detail)))) => p.violation(format!("C15/{oracle}/{}", sc.group()), format!("{name}: {detail}"), replay),
        Ok(Ok(None)) => {}
    }
    let chunk_rel = |m: usize| -> &'static str {
        let c = sc.chunk as usize;
        if m == 0 { "none" } else if c == 1 { "chunk1" } else if m < c { "below" } else if m == c { "equal" } else if m % c == 0 { "multiple" } else { "not-dividing" }
    };
    p.class(format!("{}:warmup-{}:sample-{}:flushes{}", sc.group(), chunk_rel(sc.a), chunk_rel(sc.b), sc.flush_mask.count_ones().min(2)));
}

/// Ok(Some((oracle, detail))) = a violation
fn drive<S: Settings>(sc: &Scenario, settings: &S, math: &CpuMath<RichDens>, schema: &Schema, rows: &[Vec<RRow>], p: &mut Partial) -> Result<Option<(String, String)>, String> {
    let e2s = |e: anyhow::Error| format!("{e:#}");
    let n = sc.a + sc.b;
    // the steps shared by all writers: `snapshot` yields what a fresh reader sees now
    macro_rules! steps {
        ($trace:expr, $snapshot:expr, $begin:expr, $end:expr) => {{
            let trace = $trace;
            let begin = $begin;
            let end = $end;
            let snapshot = $snapshot;
            let mut css = vec![];
            for c in 0..sc.chains {
                css.push(trace.initialize_trace_for_chain(c as u64).map_err(e2s)?);
            }
            // rows of each chain covered by its last flush
            let mut flushed: Vec<usize> = vec![0; sc.chains];
            let mut any_flush = false;
            for k in 0..n {
                for c in 0..sc.chains {
                    begin();
                    p.transitions += 1;
                    let r = feed(&mut css[c], settings, &rows[c][k]);
                    end();
                    r.map_err(|e| format!("record_sample row {k}: {e:#}"))?;
                }
                if any_flush {
                    p.count("crash_points", 1);
                    p.states += 1;
                    let rb: ReadBack = snapshot()?;
                    if let Some(d) = mismatch(schema, rows, &flushed, &rb, sc.store_warmup) {
                        return Ok(Some(("flushed-data-corrupted-by-later-recording".to_string(), format!("after recording row {k}: {d}"))));
                    }
                }
                if sc.flush_mask >> k & 1 == 1 {
                    for c in 0..sc.chains {
                        if c > 0 && sc.flush_first_chain_only {
                            continue;
                        }
                        begin();
                    p.transitions += 1;
                        let r = css[c].flush();
                        end();
                        r.map_err(|e| format!("flush after row {k}: {e:#}"))?;
                        flushed[c] = k + 1;
                    }
                    any_flush = true;
                    p.count("crash_points", 1);
                    p.states += 1;
                    p.count("flush_points", 1);
                    let rb: ReadBack = snapshot()?;
                    if let Some(d) = mismatch(schema, rows, &flushed, &rb, sc.store_warmup) {
                        return Ok(Some(("incomplete-after-flush".to_string(), format!("after the flush that follows row {k}: {d}"))));
                    }
                }
            }
            let mut finals = vec![];
            for cs in css {
                begin();
                    p.transitions += 1;
                let f = cs.finalize();
                end();
                finals.push(f);
                if any_flush {
                    p.count("crash_points", 1);
                    p.states += 1;
                    let rb: ReadBack = snapshot()?;
                    if let Some(d) = mismatch(schema, rows, &flushed, &rb, sc.store_warmup) {
                        return Ok(Some(("flushed-data-corrupted-by-finalisation".to_string(), format!("after finalising a chain: {d}"))));
                    }
                }
            }
            begin();
                    p.transitions += 1;
            let fin = trace.finalize(finals);
            end();
            let (err, _) = fin.map_err(e2s)?;
            if let Some(e) = err {
                return Err(format!("finalize reported: {e:#}"));
            }
            p.count("crash_points", 1);
                    p.states += 1;
            let rb: ReadBack = snapshot()?;
            if let Some(d) = mismatch(schema, rows, &vec![n; sc.chains], &rb, sc.store_warmup) {
                return Ok(Some(("incomplete-after-finalize".to_string(), d)));
            }
        }};
    }
    match sc.writer {
        Writer::SyncMem => {
            let m = Arc::new(zarrs::storage::store::MemoryStore::new());
            let trace = ZarrConfig::new(m.clone()).with_chunk_size(sc.chunk).store_warmup(sc.store_warmup).new_trace(settings, math).map_err(e2s)?;
            let snapshot = || -> Result<ReadBack, String> {
                let reader: Arc<dyn zarrs::storage::ReadableListableStorageTraits> = m.clone();
                read_zarr_sync(reader, &schema.stats, &schema.draws, sc.chains)
            };
            steps!(trace, snapshot, || {}, || {});
        }
        Writer::SyncFs => {
            let tmp = tempfile::tempdir_in(mc_core::verif_root().join(".build")).map_err(|e| e.to_string())?;
            let s = Arc::new(zarrs::filesystem::FilesystemStore::new(tmp.path()).map_err(|e| e.to_string())?);
            let trace = ZarrConfig::new(s.clone()).with_chunk_size(sc.chunk).store_warmup(sc.store_warmup).new_trace(settings, math).map_err(e2s)?;
            let path = tmp.path().to_path_buf();
            let snapshot = || -> Result<ReadBack, String> {
                // a new store object over the directory: nothing cached by the writer's store is used
                let fresh = Arc::new(zarrs::filesystem::FilesystemStore::new(&path).map_err(|e| e.to_string())?);
                let reader: Arc<dyn zarrs::storage::ReadableListableStorageTraits> = fresh;
                read_zarr_sync(reader, &schema.stats, &schema.draws, sc.chains)
            };
            steps!(trace, snapshot, || {}, || {});
            drop(tmp);
        }
        Writer::Async { hold, sel } => {
            let rt = tokio::runtime::Builder::new_multi_thread().worker_threads(1).enable_all().build().map_err(|e| e.to_string())?;
            let os = Arc::new(object_store::memory::InMemory::new());
            let gate = Arc::new(Gate::new(if hold == 255 { u64::MAX } else { hold as u64 }, sel));
            let store = Arc::new(GateStore { inner: zarrs_object_store::AsyncObjectStore::new(os.clone()), gate: gate.clone() });
            let trace = ZarrAsyncConfig::new(rt.handle().clone(), store).with_chunk_size(sc.chunk).store_warmup(sc.store_warmup).new_trace(settings, math).map_err(e2s)?;
            let snapshot = || -> Result<ReadBack, String> {
                let mem = Arc::new(zarrs::storage::store::MemoryStore::new());
                rt.block_on(crate::c14::futures_lite_shim::copy_object_store(os.clone(), mem.clone()))?;
                let reader: Arc<dyn zarrs::storage::ReadableListableStorageTraits> = mem;
                read_zarr_sync(reader, &schema.stats, &schema.draws, sc.chains)
            };
            let g1 = gate.clone();
            let g2 = gate.clone();
            steps!(trace, snapshot, || g1.begin_op(), || g2.end_op());
            p.count("async_chunk_writes_held", gate.held.load(Ordering::SeqCst));
        }
        Writer::AsyncFail { at } => {
            let rt = tokio::runtime::Builder::new_multi_thread().worker_threads(1).enable_all().build().map_err(|e| e.to_string())?;
            let os = Arc::new(object_store::memory::InMemory::new());
            let gate = Arc::new(Gate::failing(at as u64));
            let store = Arc::new(GateStore { inner: zarrs_object_store::AsyncObjectStore::new(os.clone()), gate: gate.clone() });
            let trace = ZarrAsyncConfig::new(rt.handle().clone(), store).with_chunk_size(sc.chunk).store_warmup(sc.store_warmup).new_trace(settings, math).map_err(e2s)?;
            let snapshot = || -> Result<ReadBack, String> {
                let mem = Arc::new(zarrs::storage::store::MemoryStore::new());
                rt.block_on(crate::c14::futures_lite_shim::copy_object_store(os.clone(), mem.clone()))?;
                let reader: Arc<dyn zarrs::storage::ReadableListableStorageTraits> = mem;
                read_zarr_sync(reader, &schema.stats, &schema.draws, sc.chains)
            };
            // (everything that returns Ok although the write failed is judged by the usual
            // completeness oracles; an Err leaves this function through `?`)
            steps!(trace, snapshot, || {}, || {});
            if gate.failed.load(Ordering::SeqCst) == 0 {
                p.count("write_failure_positions_beyond_the_last_chunk_write", 1);
            } else {
                p.count("injected_write_failures_not_reported_yet_data_complete", 1);
            }
            p.count("async_held_writes_released_because_the_writer_waited", gate.forced.load(Ordering::SeqCst));
        }
    }
    Ok(None)
}

// ---------------------------------------------------------------------------------------------
// the public route: Sampler::flush -> ChainProcess::flush, at quiescent points of a real run
// ---------------------------------------------------------------------------------------------

struct PlainNormal {
    dim: usize,
    /// sleep per density evaluation (keeps a run alive long enough to be paused mid-way)
    delay_us: u64,
}

#[derive(Debug)]
struct NeverErr;
impl std::fmt::Display for NeverErr {
    fn fmt(&self, f: &mut std::fmt::Formatter<'_>) -> std::fmt::Result {
        write!(f, "never")
    }
}
impl std::error::Error for NeverErr {}
impl nuts_rs::LogpError for NeverErr {
    fn is_recoverable(&self) -> bool {
        true
    }
}

impl nuts_rs::HasDims for PlainNormal {
    fn dim_sizes(&self) -> HashMap<String, u64> {
        HashMap::from([("unconstrained_parameter".to_string(), self.dim as u64), ("dim".to_string(), self.dim as u64)])
    }
}

impl nuts_rs::CpuLogpFunc for PlainNormal {
    type LogpError = NeverErr;
    type FlowParameters = ();
    type ExpandedVector = Vec<f64>;
    fn dim(&self) -> usize {
        self.dim
    }
    fn logp(&mut self, position: &[f64], grad: &mut [f64]) -> Result<f64, NeverErr> {
        if self.delay_us > 0 {
            std::thread::sleep(std::time::Duration::from_micros(self.delay_us));
        }
        let mut lp = 0.0;
        for i in 0..position.len() {
            let s = 0.5 + i as f64;
            grad[i] = -position[i] / (s * s);
            lp -= 0.5 * position[i] * position[i] / (s * s);
        }
        Ok(lp)
    }
    fn expand_vector<R: rand::Rng + ?Sized>(&mut self, _rng: &mut R, array: &[f64]) -> Result<Vec<f64>, nuts_rs::CpuMathError> {
        Ok(array.to_vec())
    }
}

struct PlainModel {
    delay_us: u64,
}
impl nuts_rs::Model for PlainModel {
    type Math<'m> = CpuMath<PlainNormal>;
    fn math<R: rand::Rng + ?Sized>(&self, _rng: &mut R) -> anyhow::Result<Self::Math<'_>> {
        Ok(CpuMath::new(PlainNormal { dim: 3, delay_us: self.delay_us }))
    }
    fn init_position<R: rand::Rng + ?Sized>(&self, _rng: &mut R, position: &mut [f64]) -> anyhow::Result<()> {
        for (i, p) in position.iter_mut().enumerate() {
            *p = 0.1 * (i as f64 + 1.0);
        }
        Ok(())
    }
}

/// every f64 / u64 / bool array below the four groups, as bit patterns per (array, chain)
fn dump_store(store: Arc<zarrs::storage::store::MemoryStore>, names: &[(String, String)]) -> Result<std::collections::BTreeMap<(String, usize), Vec<u64>>, String> {
    use zarrs::array::{Array, ArraySubset};
    let mut out = std::collections::BTreeMap::new();
    for (group, name) in names {
        let path = format!("/{group}/{name}");
        let arr = Array::open(store.clone(), &path).map_err(|e| format!("open {path}: {e}"))?;
        let shape = arr.shape().to_vec();
        if shape.iter().any(|s| *s == 0) {
            continue;
        }
        let subset = ArraySubset::new_with_shape(shape.clone());
        let ty = arr.data_type().to_string();
        let flat: Vec<u64> = match ty.split_whitespace().next().unwrap_or("") {
            "float64" => arr.retrieve_array_subset::<Vec<f64>>(&subset).map_err(|e| format!("read {path}: {e}"))?.iter().map(|x| if x.is_nan() { u64::MAX } else { x.to_bits() }).collect(),
            "uint64" => arr.retrieve_array_subset::<Vec<u64>>(&subset).map_err(|e| format!("read {path}: {e}"))?,
            "bool" => arr.retrieve_array_subset::<Vec<bool>>(&subset).map_err(|e| format!("read {path}: {e}"))?.iter().map(|b| *b as u64).collect(),
            other => {
                if std::env::var("VERIF_VERBOSE").is_ok() {
                    eprintln!("dump_store: skipping {path} of type {other}");
                }
                continue;
            }
        };
        let per_chain = flat.len() / shape[0] as usize;
        for c in 0..shape[0] as usize {
            out.insert((path.clone(), c), flat[c * per_chain..(c + 1) * per_chain].to_vec());
        }
    }
    Ok(out)
}

/// Sampler::flush at the two quiescent points of a real two-chain run: (i) all chains have
/// finished their draws but the sampler is not finalised, (ii) all chains are paused mid-run.
/// Differential oracle: what a fresh reader sees after the flush must be what the finalised
/// store holds for the same rows (finalisation is the reference).
fn sampler_level_flush(p: &mut Partial) {
    use nuts_rs::{Sampler, SamplerWaitResult};
    use std::time::Duration;
    for (num_tune, num_draws, chunk, pause_first) in [(6u64, 7u64, 4u64, false), (5, 3, 100, false), (0, 5, 3, false), (6, 7, 4, true), (3, 9, 2, true)] {
        let key = format!("Sampler-flush/tune{num_tune}-draws{num_draws}-chunk{chunk}-{}", if pause_first { "paused" } else { "finished" });
        let replay = json!({"num_tune": num_tune, "num_draws": num_draws, "chunk": chunk, "pause_first": pause_first});
        p.evaluations += 1;
        let settings = nuts_rs::DiagNutsSettings { num_tune, num_draws, num_chains: 2, seed: 11, maxdepth: 3, ..Default::default() };
        let store = Arc::new(zarrs::storage::store::MemoryStore::new());
        let cfg = ZarrConfig::new(store.clone()).with_chunk_size(chunk);
        let mut sampler = match Sampler::new(PlainModel { delay_us: if pause_first { 1500 } else { 0 } }, settings, cfg, 2, None) {
            Ok(s) => s,
            Err(e) => {
                p.violation(format!("C15/sampler-construction-failed/{key}"), format!("{e:#}"), replay);
                continue;
            }
        };
        let total = (num_tune + num_draws) as usize;
        let wait_until = |sampler: &mut Sampler<()>, pred: &dyn Fn(&[nuts_rs::ChainProgress]) -> bool| -> bool {
            let t0 = std::time::Instant::now();
            loop {
                if let Ok(pr) = sampler.progress() {
                    if pred(&pr) {
                        return true;
                    }
                }
                if t0.elapsed() > Duration::from_secs(20) {
                    return false;
                }
                std::thread::sleep(Duration::from_millis(2));
            }
        };
        let mut flushed_rows: Vec<usize> = vec![total, total];
        if pause_first {
            // let both chains record a few draws, then pause
            let _ = wait_until(&mut sampler, &|pr| pr.iter().all(|c| c.finished_draws >= 3));
            let _ = sampler.pause();
            // quiescent once two successive progress snapshots agree
            let last: std::cell::RefCell<Option<Vec<usize>>> = std::cell::RefCell::new(None);
            let _ = wait_until(&mut sampler, &|pr| {
                let cur: Vec<usize> = pr.iter().map(|c| c.finished_draws).collect();
                std::thread::sleep(Duration::from_millis(30));
                let same = last.borrow().as_ref() == Some(&cur);
                *last.borrow_mut() = Some(cur);
                same
            });
            std::thread::sleep(Duration::from_millis(50));
            if let Ok(pr) = sampler.progress() {
                flushed_rows = pr.iter().map(|c| c.finished_draws).collect();
            }
        } else if !wait_until(&mut sampler, &|pr| pr.iter().all(|c| c.finished_draws >= c.total_draws)) {
            p.count("sampler_level_runs_that_did_not_finish_in_time", 1);
            let _ = sampler.abort();
            continue;
        }
        if let Err(e) = sampler.flush() {
            p.violation(format!("C15/sampler-flush-failed/{key}"), format!("{e:#}"), replay);
            let _ = sampler.abort();
            continue;
        }
        p.transitions += 1;
        let names: Vec<(String, String)> = [("posterior", "value"), ("warmup_posterior", "value"), ("sample_stats", "depth"), ("sample_stats", "logp"), ("sample_stats", "diverging"), ("warmup_sample_stats", "depth"), ("warmup_sample_stats", "logp"), ("warmup_sample_stats", "step_size")]
            .iter()
            .map(|(g, n)| (g.to_string(), n.to_string()))
            .collect();
        let after_flush = dump_store(store.clone(), &names);
        if pause_first {
            let _ = sampler.resume();
        }
        let mut s = sampler;
        let fin = loop {
            match s.wait_timeout(Duration::from_secs(20)) {
                SamplerWaitResult::Trace(_) => break true,
                SamplerWaitResult::Timeout(s2) => {
                    let _ = s2.abort();
                    break false;
                }
                SamplerWaitResult::Err(..) => break false,
            }
        };
        if !fin {
            p.count("sampler_level_runs_that_did_not_finish_in_time", 1);
            continue;
        }
        let after_final = dump_store(store.clone(), &names);
        if std::env::var("VERIF_VERBOSE").is_ok() {
            eprintln!("{key}: flushed_rows {flushed_rows:?}, arrays after flush {:?}", after_flush.as_ref().map(|m| m.len()));
        }
        p.states += 2;
        match (after_flush, after_final) {
            (Ok(a), Ok(b)) => {
                'cmp: for ((path, c), fin_vals) in &b {
                    let Some(fl_vals) = a.get(&(path.clone(), *c)) else { continue };
                    let warm = path.contains("warmup");
                    // rows of this phase covered by the flush
                    let rows_phase = if warm { flushed_rows[*c].min(num_tune as usize) } else { flushed_rows[*c].saturating_sub(num_tune as usize) };
                    let phase_len = if warm { num_tune as usize } else { num_draws as usize };
                    if phase_len == 0 {
                        continue;
                    }
                    let per_row = fin_vals.len() / phase_len;
                    let n = rows_phase * per_row;
                    if fl_vals.len() < n || fl_vals[..n] != fin_vals[..n] {
                        let first = (0..n).find(|i| fl_vals.get(*i) != fin_vals.get(*i)).unwrap_or(0) / per_row.max(1);
                        p.violation(
                            format!("C15/incomplete-after-sampler-flush/{key}"),
                            format!("{path} chain {c}: row {first} of the {rows_phase} rows recorded before Sampler::flush() returned differs from the finalised store (fill value instead of the draw)"),
                            replay.clone(),
                        );
                        break 'cmp;
                    }
                }
                p.class(format!("sampler-flush:{}", if pause_first { "paused" } else { "finished" }));
            }
            (Err(e), _) | (_, Err(e)) => p.violation(format!("C15/store-unreadable/{key}"), e, replay),
        }
    }
}

pub fn run(tier: Tier, _replay: Option<String>) -> i32 {
    let mut report = Report::new(
        "C15",
        tier,
        "model_checking",
        "writers {sync/memory, sync/filesystem, async/object store behind a write gate: chunk writes held for {0, 1, 2, until the writer waits} operations x {all, odd, even} writes} x (a warmup, b sampling rows), a,b in 0..=2 (0..=3) x chunk sizes {1,2,3,100} ({1,2,3,4,5,100}) x EVERY subset of flush positions x chains {1,2} x {all chains flushed, chain 0 only}; crash points = after every record, flush, chain finalisation and trace finalisation, each read by a fresh reader; oracles complete-after-flush / flushed-data-intact / complete-after-finalize per chain, variable and phase. distinct = (writer timing, preset, chunk-size relation to a and to b, number of flushes) classes",
    );
    report.assume("a crash is modelled as the store contents at an operation boundary (the property speaks of a process that stops after a flush); torn writes inside one store key are outside the property");
    report.assume("async write-queue timing is owned at the store seam (hold / release of chunk writes); the order in which the tokio worker polls tasks that are runnable at the same time is not enumerated");
    let presets: Vec<Preset> = tier.pick(vec![Preset::DiagNuts], vec![Preset::DiagNuts, Preset::LowRankNuts, Preset::DiagMclmc]);
    let maxab = tier.pick(2usize, 3);
    let chunks: Vec<u64> = tier.pick(vec![1, 2, 3, 100], vec![1, 2, 3, 4, 5, 100]);
    let mut writers = vec![Writer::SyncMem, Writer::SyncFs, Writer::Async { hold: 0, sel: 0 }];
    for hold in [1u8, 2, 255] {
        for sel in [0u8, 1, 2] {
            if tier == Tier::Quick && sel == 2 {
                continue;
            }
            writers.push(Writer::Async { hold, sel });
        }
    }
    let mut scs = vec![];
    for &preset in &presets {
        for &writer in &writers {
            // quick: a,b <= 2 plus three longer histories whose second chunk stays partial
            let mut abs: Vec<(usize, usize)> = vec![];
            for a in 0..=maxab {
                for b in 0..=maxab {
                    abs.push((a, b));
                }
            }
            if tier == Tier::Quick {
                abs.extend([(0usize, 3usize), (3, 0), (1, 3)]);
            }
            for (a, b) in abs {
                {
                    let n = a + b;
                    if n == 0 {
                        continue;
                    }
                    for &chunk in &chunks {
                        if (a > maxab || b > maxab) && chunk != 2 {
                            continue;
                        }
                        for chains in [1usize, 2] {
                            for flush_mask in 0..(1u32 << n) {
                                // the filesystem store and the second chain get a reduced menu
                                if writer == Writer::SyncFs && !(chunk == 2 || chunk == 3) {
                                    continue;
                                }
                                if chains == 2 && (flush_mask.count_ones() > 2 || chunk == 100 || (tier == Tier::Quick && matches!(writer, Writer::Async { hold, .. } if hold == 2))) {
                                    continue;
                                }
                                if preset != Preset::DiagNuts && (chains == 2 || flush_mask.count_ones() > 2) {
                                    continue;
                                }
                                let div_mask = if n >= 2 { 0b10 } else { 0 };
                                scs.push(Scenario { preset, writer, a, b, chains, chunk, flush_mask, flush_first_chain_only: false, div_mask, store_warmup: true });
                                if chains == 2 && flush_mask != 0 && writer == Writer::SyncMem {
                                    scs.push(Scenario { preset, writer, a, b, chains, chunk, flush_mask, flush_first_chain_only: true, div_mask, store_warmup: true });
                                }
                            }
                        }
                    }
                }
            }
        }
    }
    // the writers' store_warmup(false) option: warmup rows are recorded but not stored, the
    // sampling rows have to be complete at every flush point all the same
    for writer in [Writer::SyncMem, Writer::SyncFs, Writer::Async { hold: 0, sel: 0 }, Writer::Async { hold: 1, sel: 0 }] {
        for (a, b) in [(1usize, 1usize), (1, 2), (2, 1), (2, 3), (3, 2), (0, 3)] {
            let n = a + b;
            for chunk in [1u64, 2, 3] {
                for flush_mask in 0..(1u32 << n) {
                    if writer == Writer::SyncFs && (chunk != 2 || flush_mask.count_ones() > 2) {
                        continue;
                    }
                    if n == 5 && flush_mask.count_ones() > 2 {
                        continue;
                    }
                    scs.push(Scenario { preset: Preset::DiagNuts, writer, a, b, chains: 1, chunk, flush_mask, flush_first_chain_only: false, div_mask: if n >= 2 { 0b10 } else { 0 }, store_warmup: false });
                }
            }
        }
    }
    // a transient failure of one chunk write, at every position of the write sequence: either
    // some call of the writer reports it, or the trace is complete
    for (a, b) in [(0usize, 3usize), (1, 2)] {
        for chunk in [1u64, 2] {
            for flush_mask in [0u32, 0b100, 0b111] {
                for at in 0..tier.pick(160u16, 400) {
                    scs.push(Scenario { preset: Preset::DiagNuts, writer: Writer::AsyncFail { at }, a, b, chains: 1, chunk, flush_mask, flush_first_chain_only: false, div_mask: 0, store_warmup: true });
                }
            }
        }
    }
    report.bounds = json!({"scenarios": scs.len(), "max_rows_per_phase": maxab, "chunk_sizes": chunks, "writers": writers.len()});
    let _ = std::fs::create_dir_all(mc_core::verif_root().join(".build"));
    mc_core::par_for_each(&scs, |i, sc| {
        let mut p = Partial::new();
        let mut t = Tweaks::default();
        t.num_tune = sc.a as u64;
        t.num_draws = sc.b as u64;
        t.maxdepth = Some(3);
        t.store_divergences = true;
        t.store_unconstrained = true;
        t.store_gradient = true;
        t.store_mass_matrix = true;
        t.dynamic_step_size = Some(false);
        t.mclmc_length = Some(1.0);
        t.early_switch_freq = Some(2);
        with_settings!(sc.preset, &t, |s| {
            let mut s = s;
            SetChains::set(&mut s, sc.chains);
            run_scenario(sc, &s, &mut p);
        });
        if i % 997 == 5 {
            p.sample(json!({"scenario": sc.name()}));
        }
        report.merge(p);
    });
    {
        let mut p = Partial::new();
        sampler_level_flush(&mut p);
        report.merge(p);
    }
    report.finish()
}
