//! C06 — warmup ends exactly at num_tune and the kernel is frozen afterwards.
//!
//! (a) configuration sweep through the public API: every num_tune in 0..=60 (+ larger values),
//!     all six presets, step-size methods, jitter settings, window fractions; real ChaCha8 stream
//!     with fixed seeds (the seed is a configuration value, not an explored dimension).
//! (b) history exploration: see c09.rs (the schedule automaton is explored there by calling the
//!     real `adapt` with every event word; its frozen-kernel invariants are reported under C06 too).

use mc_core::{Partial, Report, Tier};
use nuts_rs::StepSizeAdaptMethod;
use serde_json::json;

use crate::common::models::{Dens, Target};
use crate::common::runner::*;
use crate::common::stats::*;
use crate::with_settings;

#[derive(Clone, Debug)]
struct Cfg {
    preset: Preset,
    num_tune: u64,
    num_draws: u64,
    method: Option<StepSizeAdaptMethod>,
    jitter: Option<f64>,
    step_size_window: f64,
    early_window: f64,
    switch_freq: u64,
    seed: u64,
    /// a recoverable density error at the first trajectory evaluation of this draw (divergence
    /// exactly at / next to the warmup boundary)
    fault_draw: Option<u64>,
    /// non-default `dual_average.max_step_size` (an option of the dual-averaging method only)
    max_step_size: Option<f64>,
    /// configured step size of the Diag/LowRank MCLMC presets
    mclmc_step: Option<f64>,
}

fn key(c: &Cfg) -> String {
    format!(
        "{:?}/tune{}/method{:?}/jitter{:?}/ssw{}/ew{}/sf{}/seed{}{}",
        c.preset, c.num_tune, c.method, c.jitter, c.step_size_window, c.early_window, c.switch_freq, c.seed,
        c.fault_draw.map(|d| format!("/divergence-in-draw{d}")).unwrap_or_default()
    ) + &c.max_step_size.map(|m| format!("/maxstep{m}")).unwrap_or_default()
        + &c.mclmc_step.map(|m| format!("/mclmcstep{m}")).unwrap_or_default()
}

fn start_of_final_window(c: &Cfg) -> u64 {
    if c.preset.is_flow() {
        ((c.num_tune as f64) * (1.0 - c.step_size_window)).floor() as u64
    } else {
        c.num_tune
            .saturating_sub((c.step_size_window * c.num_tune as f64) as u64)
    }
}

fn check_one(c: &Cfg, p: &mut Partial) {
    let t0 = std::time::Instant::now();
    let mut t = Tweaks::default();
    t.num_tune = c.num_tune;
    t.num_draws = c.num_draws;
    t.method = c.method;
    t.jitter = Some(c.jitter);
    t.step_size_window = Some(c.step_size_window);
    if !c.preset.is_flow() {
        t.early_window = Some(c.early_window);
        t.switch_freq = Some(c.switch_freq);
    }
    t.maxdepth = Some(5);
    t.max_step_size = c.max_step_size;
    t.mclmc_step_size = c.mclmc_step;
    let target = Target::DiagNormal {
        mu: vec![0.3, -1.0, 2.0],
        sigma: vec![0.5, 1.0, 3.0],
    };
    let n = (c.num_tune + c.num_draws) as usize;
    if c.fault_draw.is_some() {
        // one failing evaluation must end the trajectory (no smaller-step retry)
        t.dynamic_step_size = Some(false);
    }
    let mut res = with_settings!(c.preset, &t, |s| run_chain(
        &s,
        Dens::new(target.clone()),
        c.seed,
        &[0.1, 0.2, -0.3],
        n
    ));
    if let (Some(fd), RunEnd::Completed) = (c.fault_draw, &res.end) {
        // evaluation index of the first evaluation of draw `fd` in the fault-free run
        let at = if fd == 0 { res.n_eval_after_init } else { res.draws[fd as usize - 1].n_eval_after };
        res = with_settings!(c.preset, &t, |s| run_chain(
            &s,
            Dens::with_faults(target.clone(), vec![(at, crate::common::models::FaultKind::Recoverable)]),
            c.seed,
            &[0.1, 0.2, -0.3],
            n
        ));
        if matches!(res.end, RunEnd::Completed) && !res.draws[fd as usize].diverging {
            p.count("boundary_faults_that_did_not_make_the_draw_diverge", 1);
        } else {
            p.count("runs_with_a_divergence_at_the_warmup_boundary", 1);
        }
    }
    p.evaluations += 1;
    if std::env::var("VERIF_VERBOSE").is_ok() {
        eprintln!("cfg {} {:.2}s", key(c), t0.elapsed().as_secs_f64());
    }
    let replay = json!({"config": format!("{c:?}")});
    let k = key(c);
    match &res.end {
        RunEnd::Completed => {}
        e => {
            p.violation(
                format!("C06/chain-does-not-work/{k}"),
                format!("{e:?}"),
                replay.clone(),
            );
            return;
        }
    }
    let start_final = start_of_final_window(c);
    let jit = c.jitter.unwrap_or(0.0);
    let mut first_bad_tuning: Option<(u64, bool)> = None;
    let mut frozen_idx: Option<i64> = None;
    let mut bar_ref: Option<f64> = None;
    for (d, r) in res.draws.iter().enumerate() {
        let d = d as u64;
        // (1) tuning flag
        let expect_tuning = d < c.num_tune;
        let stat_tuning = bool_of(&r.stats, "tuning");
        if (r.tuning != expect_tuning || stat_tuning != Some(expect_tuning)) && first_bad_tuning.is_none() {
            first_bad_tuning = Some((d, r.tuning));
        }
        if r.draw != d {
            p.violation(format!("C06/draw-counter/{k}"), format!("draw {d} reported {}", r.draw), replay.clone());
        }
        // (2) transformation frozen from the start of the final window
        if d >= start_final {
            let idx = i64_of(&r.stats, "transformation_index");
            match (frozen_idx, idx) {
                (None, Some(i)) => frozen_idx = Some(i),
                (Some(f), Some(i)) if f != i => {
                    p.violation(
                        format!("C06/transformation-changed-in-final-window/{k}"),
                        format!("draw {d}: transformation_index {i} != {f} (final window starts at {start_final})"),
                        replay.clone(),
                    );
                }
                _ => {}
            }
            // (the first draw always reports the initial transformation set by set_position)
            if d > 0 && has_name(&r.stats, "transformation_update_id") && get(&r.stats, "transformation_update_id").is_some() {
                p.violation(
                    format!("C06/transformation-update-event-in-final-window/{k}"),
                    format!("draw {d} (final window starts at {start_final})"),
                    replay.clone(),
                );
            }
        }
        // (3) constant base step size after warmup, later step sizes inside the jitter band
        if d + 1 >= c.num_tune {
            let bar = f64_of(&r.stats, "step_size_bar");
            if let Some(bar) = bar {
                match bar_ref {
                    None => bar_ref = Some(bar),
                    Some(b) if b.to_bits() != bar.to_bits() => {
                        p.violation(
                            format!("C06/base-step-size-not-constant-after-warmup/{k}"),
                            format!("draw {d}: step_size_bar {bar} != {b}"),
                            replay.clone(),
                        );
                    }
                    _ => {}
                }
                // NUTS chains report the step size set for the *next* draw, MCLMC chains the one
                // used by *this* draw; either way only draws >= num_tune are judged
                let judged = if c.preset.is_nuts() { true } else { d >= c.num_tune };
                let ratio = r.step_size / bar;
                if judged
                    && (!(ratio >= 1.0 - jit - 1e-12 && ratio <= 1.0 + jit + 1e-12)
                        || !r.step_size.is_finite()
                        || r.step_size <= 0.0)
                {
                    let which = if c.preset.is_nuts() { d + 1 } else { d };
                    p.violation(
                        format!("C06/step-size-outside-jitter-band/{k}"),
                        format!("draw {which} (posterior) runs with step size {} but the final averaged step size is {bar} (jitter {jit})", r.step_size),
                        replay.clone(),
                    );
                }
            }
        }
    }
    if let Some((d, got)) = first_bad_tuning {
        p.violation(
            format!("C06/tuning-flag/{k}"),
            format!("draw {d}: tuning={got}, num_tune={}", c.num_tune),
            replay.clone(),
        );
    }
    p.class(format!(
        "{:?}:tune{}:{:?}:{:?}",
        c.preset,
        c.num_tune,
        c.method.map(|m| format!("{m:?}").chars().take(4).collect::<String>()),
        c.jitter
    ));
    if p.samples.is_empty() {
        p.sample(json!({"config": format!("{c:?}"), "final_window_start": start_final, "draws": n,
            "last_draw": {"tuning": res.draws.last().map(|d| d.tuning), "step_size": res.draws.last().map(|d| d.step_size)}}));
    }
}

pub fn run(tier: Tier, _replay: Option<String>) -> i32 {
    let mut report = Report::new(
        "C06",
        tier,
        "exploration",
        "configuration sweep through Settings::new_chain/Chain::expanded_draw: num_tune in 0..=60 u {100,150,400[,1000,2000]} x six presets x step-size method {DualAverage, Adam, Fixed} (NUTS) x jitter {None, 0.1} x window options x seeds; + a forced divergence at the warmup boundary and (short warmups) in every single draw; per draw: tuning flag, transformation index/update events vs start of the final window, step_size vs step_size_bar. distinct = (preset, num_tune, method, jitter) classes",
    );
    report.assume("ChaCha8 seeds are configuration values (2 fixed seeds), not an explored dimension");
    report.assume("3-d Gaussian target; the flow presets use the harness' affine flow");
    let mut tunes: Vec<u64> = (0..=60).collect();
    tunes.extend(tier.pick(vec![100, 150, 400], vec![100, 150, 400, 1000, 2000]));
    let mut cfgs = vec![];
    for preset in Preset::ALL {
        let methods: Vec<Option<StepSizeAdaptMethod>> = if preset == Preset::FlowMclmc {
            // FlowMclmcSettings (unlike the other MCLMC presets) keeps the configured step-size
            // method; with dual averaging its step size collapses and a draw takes up to 1e6
            // leapfrogs, so the adaptive variant is only run for short warmups (see below)
            vec![Some(StepSizeAdaptMethod::Fixed(0.5)), None]
        } else if preset.is_nuts() {
            vec![
                Some(StepSizeAdaptMethod::DualAverage),
                Some(StepSizeAdaptMethod::Adam),
                Some(StepSizeAdaptMethod::Fixed(0.3)),
            ]
        } else {
            vec![None]
        };
        for &num_tune in &tunes {
            for &method in &methods {
                if preset == Preset::FlowMclmc && method.is_none() && num_tune > 12 {
                    continue;
                }
                for jitter in [None, Some(0.1)] {
                    let windows: Vec<(f64, f64, u64)> = match tier {
                        // (step_size_window, early_window, switch_freq); the last ones make the early
                        // window overlap the final step-size window (early + final > 1)
                        Tier::Quick => vec![(0.15, 0.3, 80), (0.5, 0.1, 5), (0.0, 0.0, 1), (0.6, 0.5, 2), (1.0, 0.3, 3)],
                        Tier::Thorough => vec![(0.15, 0.3, 80), (0.5, 0.1, 5), (0.0, 0.0, 1), (0.9, 0.05, 3), (0.07, 0.5, 20), (0.6, 0.5, 2), (1.0, 0.3, 3), (0.7, 0.6, 1)],
                    };
                    for (ssw, ew, sf) in windows {
                        for seed in tier.pick(vec![1u64], vec![1u64, 2]) {
                            cfgs.push(Cfg {
                                preset,
                                num_tune,
                                num_draws: 5,
                                method,
                                jitter,
                                step_size_window: ssw,
                                early_window: ew,
                                switch_freq: sf,
                                seed,
                                fault_draw: None,
                                max_step_size: None,
                                mclmc_step: None,
                            });
                        }
                    }
                }
            }
        }
    }
    // a divergence in the last warmup draw, in the first posterior draw, and in the one after it
    for preset in Preset::ALL {
        for num_tune in [0u64, 1, 2, 5, 12, 30] {
            for off in [-1i64, 0, 1] {
                let fd = num_tune as i64 + off;
                if fd < 0 {
                    continue;
                }
                let method = if preset == Preset::FlowMclmc { Some(StepSizeAdaptMethod::Fixed(0.5)) } else { None };
                cfgs.push(Cfg { preset, num_tune, num_draws: 5, method, jitter: None, step_size_window: 0.15, early_window: 0.3, switch_freq: 80, seed: 1, fault_draw: Some(fd as u64), max_step_size: None, mclmc_step: None });
            }
        }
    }
    // a divergence in *every single* draw of short warmups (not only at the boundary), under the
    // window options that move the phase boundaries, for every adaptive step-size method: the
    // acceptance/divergence history is part of the quantifier, and a divergent draw is where the
    // schedule (switches, final window, last-draw hand-over) takes its other branches
    {
        let tunes: Vec<u64> = tier.pick(vec![3, 8], vec![1, 2, 3, 4, 6, 8, 10, 13, 21]);
        let windows: Vec<(f64, f64, u64)> = tier.pick(
            vec![(0.5, 0.1, 5), (0.6, 0.5, 2)],
            vec![(0.15, 0.3, 80), (0.5, 0.1, 5), (0.6, 0.5, 2), (1.0, 0.3, 3), (0.0, 0.0, 1)],
        );
        for preset in Preset::ALL {
            let methods: Vec<Option<StepSizeAdaptMethod>> = if preset == Preset::FlowMclmc {
                vec![Some(StepSizeAdaptMethod::Fixed(0.5))]
            } else if preset.is_nuts() {
                vec![Some(StepSizeAdaptMethod::DualAverage), Some(StepSizeAdaptMethod::Adam)]
            } else {
                vec![None]
            };
            for &num_tune in &tunes {
                for &method in &methods {
                    for &(ssw, ew, sf) in &windows {
                        for fd in 0..num_tune + 3 {
                            // the three boundary positions under the default windows are above
                            cfgs.push(Cfg { preset, num_tune, num_draws: 5, method, jitter: Some(0.1), step_size_window: ssw, early_window: ew, switch_freq: sf, seed: 1, fault_draw: Some(fd), max_step_size: None, mclmc_step: None });
                        }
                    }
                }
            }
        }
    }
    // base step sizes above the dual-averaging cap: `max_step_size` bounds the dual-averaging
    // iterates only; a fixed or Adam-adapted step size (and the MCLMC presets' configured one) still
    // has to be used within its jitter band
    for preset in Preset::ALL {
        for num_tune in [0u64, 7, 30] {
            for jitter in [None, Some(0.1)] {
                let mut variants: Vec<(Option<StepSizeAdaptMethod>, Option<f64>, Option<f64>)> = vec![];
                if preset.is_nuts() {
                    variants.push((Some(StepSizeAdaptMethod::Fixed(0.5)), Some(0.3), None));
                    variants.push((Some(StepSizeAdaptMethod::Fixed(3.6)), None, None));
                    variants.push((Some(StepSizeAdaptMethod::Adam), Some(0.05), None));
                    variants.push((Some(StepSizeAdaptMethod::DualAverage), Some(0.3), None));
                } else if preset == Preset::FlowMclmc {
                    variants.push((Some(StepSizeAdaptMethod::Fixed(0.5)), Some(0.3), None));
                } else {
                    variants.push((None, Some(0.3), Some(0.5)));
                    variants.push((None, None, Some(4.0)));
                }
                for (method, max_step_size, mclmc_step) in variants {
                    cfgs.push(Cfg { preset, num_tune, num_draws: 5, method, jitter, step_size_window: 0.15, early_window: 0.3, switch_freq: 80, seed: 1, fault_draw: None, max_step_size, mclmc_step });
                }
            }
        }
    }
    report.bounds = json!({"configurations": cfgs.len(), "num_tune_values": tunes.len()});
    mc_core::par_for_each(&cfgs, |_, c| {
        let mut p = Partial::new();
        check_one(c, &mut p);
        report.merge(p);
    });
    report.finish()
}
