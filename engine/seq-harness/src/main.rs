//! seq-harness: engine E1 checks (choice-tree / bounded-exhaustive enumeration on the real
//! sequential code of nuts-rs). One sub-command per property id.

mod common;
mod c01;
mod c02;
mod c03;
mod c05;
mod c06;
mod c07;
mod c08;
mod c09;
mod c14;
mod c15;
mod c16;
mod c17;
mod c18;
mod c19;

use mc_core::Tier;

fn main() {
    let args: Vec<String> = std::env::args().collect();
    if args.len() < 2 {
        eprintln!("usage: seq-harness <ID> [--tier quick|thorough] [--replay file]");
        std::process::exit(2);
    }
    let id = args[1].clone();
    let mut tier_arg: Option<String> = None;
    let mut replay: Option<String> = None;
    let mut i = 2;
    while i < args.len() {
        match args[i].as_str() {
            "--tier" => {
                tier_arg = args.get(i + 1).cloned();
                i += 2;
            }
            "--replay" => {
                replay = args.get(i + 1).cloned();
                i += 2;
            }
            _ => i += 1,
        }
    }
    // --replay <file>: re-run the exploration of the tier recorded in the artefact and report
    // whether the recorded violation (key + scenario) occurs again (mc_core::Report::finish)
    if let Some(path) = &replay {
        let doc: serde_json::Value = match std::fs::read_to_string(path).map_err(|e| e.to_string()).and_then(|t| serde_json::from_str(&t).map_err(|e| e.to_string())) {
            Ok(d) => d,
            Err(e) => {
                eprintln!("MACHINERY-ERROR: cannot read replay artefact {path}: {e}");
                std::process::exit(2);
            }
        };
        if doc["property"].as_str() != Some(id.as_str()) {
            eprintln!("MACHINERY-ERROR: replay artefact {path} belongs to property {}", doc["property"]);
            std::process::exit(2);
        }
        let detail = doc["detail"].as_str().unwrap_or("");
        let scen = detail.split(": ").next().unwrap_or("");
        // SAFETY-free: single-threaded at this point
        unsafe {
            std::env::set_var("VERIF_REPLAY_KEY", doc["key"].as_str().unwrap_or(""));
            std::env::set_var("VERIF_REPLAY_SCENARIO", if detail.contains(": ") { scen } else { "" });
            std::env::set_var("VERIF_REPLAY_FILE", path);
        }
        if tier_arg.is_none() {
            tier_arg = doc["tier"].as_str().map(|s| s.to_string());
        }
    }
    let tier = Tier::from_env_or(tier_arg.as_deref());
    if std::env::var("VERIF_SHOW_PANICS").is_err() {
        // panics of the code under test are caught and judged by the checks; keep stderr readable
        std::panic::set_hook(Box::new(|_| {}));
    }
    // A panic that escapes a check is a machinery error, never a verdict.
    let res = std::panic::catch_unwind(|| match id.as_str() {
        "C01" => c01::run(tier, replay),
        "C02" => c02::run(tier, replay),
        "C03" => c03::run(tier, replay),
        "C05" => c05::run_check(tier, replay),
        "C06" => c06::run(tier, replay),
        "C07" => c07::run(tier, replay),
        "C08" => c08::run(tier, replay),
        "C09" => c09::run(tier, replay),
        "C14" => c14::run(tier, replay),
        "C15" => c15::run(tier, replay),
        "C16" => c16::run(tier, replay),
        "C17" => c17::run(tier, replay),
        "C18" => c18::run_check(tier, replay),
        "C19" => c19::run(tier, replay),
        _ => {
            eprintln!("MACHINERY-ERROR: unknown property id {id}");
            2
        }
    });
    match res {
        Ok(code) => std::process::exit(code),
        Err(_) => {
            eprintln!("MACHINERY-ERROR: harness panicked outside a guarded region");
            std::process::exit(2);
        }
    }
}
