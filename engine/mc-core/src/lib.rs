//! mc-core: the small shared library behind every check in /verif.
//!
//! * `Ctx` / `explore`  – stateless choice-tree DFS with deviation bounding (engine E1)
//! * `Report`           – coverage accounting, known-findings handling, evidence + VIOLATION lines
//! * `par_for_each`     – work distribution over the 16 cores (partitions are explored exhaustively
//!                        and independently; nothing is sampled)
//!
//! Exit codes used by all harness binaries: 0 = property held on everything explored
//! (known findings are printed and tolerated), 1 = violation (VIOLATION line printed),
//! 2 = machinery error (never a verdict).

use serde_json::{json, Map, Value};
use std::collections::{BTreeMap, BTreeSet};
use std::path::PathBuf;
use std::sync::atomic::{AtomicUsize, Ordering};
use std::sync::Mutex;
use std::time::Instant;

// ---------------------------------------------------------------------------------------------
// environment
// ---------------------------------------------------------------------------------------------

pub fn verif_root() -> PathBuf {
    PathBuf::from(std::env::var("VERIF_ROOT").unwrap_or_else(|_| "/verif".to_string()))
}

#[derive(Clone, Copy, Debug, PartialEq, Eq)]
pub enum Tier {
    Quick,
    Thorough,
}

impl Tier {
    pub fn from_env_or(arg: Option<&str>) -> Tier {
        let s = arg
            .map(|s| s.to_string())
            .or_else(|| std::env::var("VERIF_TIER").ok())
            .unwrap_or_else(|| "quick".into());
        match s.as_str() {
            "thorough" => Tier::Thorough,
            _ => Tier::Quick,
        }
    }
    pub fn name(&self) -> &'static str {
        match self {
            Tier::Quick => "quick",
            Tier::Thorough => "thorough",
        }
    }
    pub fn pick<T>(&self, quick: T, thorough: T) -> T {
        match self {
            Tier::Quick => quick,
            Tier::Thorough => thorough,
        }
    }
}

pub fn seed_from_env() -> i64 {
    std::env::var("VERIF_SEED")
        .ok()
        .and_then(|s| s.parse().ok())
        .unwrap_or(0)
}

pub fn n_threads() -> usize {
    std::env::var("VERIF_THREADS")
        .ok()
        .and_then(|s| s.parse().ok())
        .unwrap_or_else(|| {
            std::thread::available_parallelism()
                .map(|n| n.get())
                .unwrap_or(4)
                .min(16)
        })
}

// ---------------------------------------------------------------------------------------------
// choice-tree explorer
// ---------------------------------------------------------------------------------------------

/// One recorded choice point of an execution.
#[derive(Clone, Copy, Debug, PartialEq, Eq)]
pub struct Point {
    pub choice: u32,
    pub n: u32,
    /// true: taking an alternative != 0 costs one deviation; false: alternatives are free
    pub costly: bool,
}

/// Handed to the harness body; every owned nondeterminism seam asks it for an answer.
pub struct Ctx {
    prefix: Vec<u32>,
    pub trace: Vec<Point>,
    /// set when a replayed choice does not fit the choice point met (uncontrolled nondeterminism)
    pub diverged: Option<String>,
}

impl Ctx {
    pub fn new(prefix: Vec<u32>) -> Ctx {
        Ctx {
            prefix,
            trace: Vec::new(),
            diverged: None,
        }
    }
    fn choose_inner(&mut self, n: u32, costly: bool) -> u32 {
        let i = self.trace.len();
        let mut c = if i < self.prefix.len() { self.prefix[i] } else { 0 };
        if n == 0 {
            self.diverged = Some(format!("choice point {i} has no alternatives"));
            return 0;
        }
        if c >= n {
            self.diverged = Some(format!(
                "replayed choice {c} out of range {n} at point {i} (divergence while replaying a prefix)"
            ));
            c = 0;
        }
        self.trace.push(Point { choice: c, n, costly });
        c
    }
    /// alternatives other than 0 cost one deviation each
    pub fn choose(&mut self, n: u32) -> u32 {
        self.choose_inner(n, true)
    }
    /// all alternatives are equally "default" (e.g. a fair direction bit)
    pub fn choose_free(&mut self, n: u32) -> u32 {
        self.choose_inner(n, false)
    }
    pub fn choices(&self) -> Vec<u32> {
        self.trace.iter().map(|p| p.choice).collect()
    }
    pub fn depth(&self) -> usize {
        self.trace.len()
    }
}

#[derive(Clone, Debug, Default)]
pub struct ExploreStats {
    pub executions: u64,
    /// choice points visited for the first time (nodes of the choice tree)
    pub states: u64,
    /// edges of the choice tree taken
    pub transitions: u64,
    pub max_depth: usize,
    /// alternatives not taken because the deviation budget was exhausted
    pub pruned_by_bound: u64,
    pub execution_cap_hit: bool,
}

impl ExploreStats {
    pub fn merge(&mut self, o: &ExploreStats) {
        self.executions += o.executions;
        self.states += o.states;
        self.transitions += o.transitions;
        self.max_depth = self.max_depth.max(o.max_depth);
        self.pruned_by_bound += o.pruned_by_bound;
        self.execution_cap_hit |= o.execution_cap_hit;
    }
    pub fn exhaustive(&self) -> bool {
        self.pruned_by_bound == 0 && !self.execution_cap_hit
    }
}

/// Depth-first exploration of every choice vector the body can meet.
///
/// `bound`: maximal number of costly deviations per execution (None = unbounded).
/// `max_exec`: hard cap on executions (reported, never silently).
/// The body is re-executed from scratch for every path (stateless exploration); it must be a
/// deterministic function of the answers it gets from `Ctx`. A replay divergence makes the
/// whole exploration return Err (machinery error).
pub fn explore<F>(
    bound: Option<u32>,
    max_exec: u64,
    mut body: F,
) -> Result<ExploreStats, String>
where
    F: FnMut(&mut Ctx),
{
    let mut stats = ExploreStats::default();
    let mut stack: Vec<Vec<u32>> = vec![vec![]];
    while let Some(prefix) = stack.pop() {
        if stats.executions >= max_exec {
            stats.execution_cap_hit = true;
            break;
        }
        let plen = prefix.len();
        let mut ctx = Ctx::new(prefix);
        body(&mut ctx);
        if let Some(d) = ctx.diverged.take() {
            return Err(d);
        }
        if ctx.trace.len() < plen {
            return Err(format!(
                "execution ended after {} choice points while replaying a prefix of {}",
                ctx.trace.len(),
                plen
            ));
        }
        stats.executions += 1;
        stats.max_depth = stats.max_depth.max(ctx.trace.len());
        // the last element of the prefix is the edge that led here
        if plen > 0 {
            stats.transitions += 1;
        }
        let mut dev: u32 = ctx.trace[..plen]
            .iter()
            .filter(|p| p.costly && p.choice != 0)
            .count() as u32;
        // push alternatives deepest-first so that the DFS order is lexicographic
        let mut to_push: Vec<Vec<u32>> = Vec::new();
        for i in plen..ctx.trace.len() {
            let p = ctx.trace[i];
            stats.states += 1;
            stats.transitions += 1; // default edge taken by this execution
            debug_assert_eq!(p.choice, 0);
            for alt in 1..p.n {
                let cost = if p.costly { 1 } else { 0 };
                if let Some(b) = bound {
                    if dev + cost > b {
                        stats.pruned_by_bound += 1;
                        continue;
                    }
                }
                let mut np: Vec<u32> = ctx.trace[..i].iter().map(|q| q.choice).collect();
                np.push(alt);
                to_push.push(np);
            }
            if p.costly && p.choice != 0 {
                dev += 1;
            }
        }
        // transitions for default edges beyond prefix were counted; correct double count of the
        // alternative edge (counted when executed)
        while let Some(p) = to_push.pop() {
            stack.push(p);
        }
    }
    Ok(stats)
}

// ---------------------------------------------------------------------------------------------
// parallel partitions
// ---------------------------------------------------------------------------------------------

/// Run `f(index, item)` for every item on `n_threads()` worker threads (dynamic work queue).
pub fn par_for_each<T: Sync, F: Fn(usize, &T) + Sync>(items: &[T], f: F) {
    let next = AtomicUsize::new(0);
    let nt = n_threads().min(items.len().max(1));
    std::thread::scope(|s| {
        for _ in 0..nt {
            s.spawn(|| loop {
                let i = next.fetch_add(1, Ordering::SeqCst);
                if i >= items.len() {
                    break;
                }
                f(i, &items[i]);
            });
        }
    });
}

// ---------------------------------------------------------------------------------------------
// report
// ---------------------------------------------------------------------------------------------

#[derive(Clone, Debug)]
pub struct Violation {
    /// stable identifier of the failing input / schedule / history (matched against known findings)
    pub key: String,
    pub detail: String,
    /// everything needed to replay
    pub replay: Value,
}

/// Thread-local accumulator that can be merged into the `Report`.
#[derive(Default, Clone)]
pub struct Partial {
    pub evaluations: u64,
    pub states: u64,
    pub transitions: u64,
    pub validated: u64,
    pub classes: BTreeSet<String>,
    pub samples: Vec<Value>,
    pub violations: Vec<Violation>,
    pub counters: BTreeMap<String, u64>,
    pub caps: BTreeSet<String>,
}

impl Partial {
    pub fn new() -> Self {
        Self::default()
    }
    pub fn class(&mut self, c: impl Into<String>) {
        self.classes.insert(c.into());
    }
    pub fn count(&mut self, k: &str, n: u64) {
        *self.counters.entry(k.to_string()).or_insert(0) += n;
    }
    pub fn sample(&mut self, v: Value) {
        if self.samples.len() < 4 {
            self.samples.push(v);
        }
    }
    pub fn violation(&mut self, key: impl Into<String>, detail: impl Into<String>, replay: Value) {
        let key = key.into();
        if self.violations.len() < 200 || !self.violations.iter().any(|v| v.key == key) {
            if self.violations.len() < 2000 {
                self.violations.push(Violation {
                    key,
                    detail: detail.into(),
                    replay,
                });
            }
        }
        self.count("violating_cases", 1);
    }
    pub fn add_explore(&mut self, s: &ExploreStats) {
        self.evaluations += s.executions;
        self.states += s.states;
        self.transitions += s.transitions;
        if s.pruned_by_bound > 0 {
            self.count("alternatives_pruned_by_deviation_bound", s.pruned_by_bound);
        }
        if s.execution_cap_hit {
            self.caps.insert("execution cap hit".into());
        }
    }
    pub fn merge(&mut self, o: Partial) {
        self.evaluations += o.evaluations;
        self.states += o.states;
        self.transitions += o.transitions;
        self.validated += o.validated;
        self.classes.extend(o.classes);
        for s in o.samples {
            if self.samples.len() < 6 {
                self.samples.push(s);
            }
        }
        for v in o.violations {
            if self.violations.len() < 5000 {
                self.violations.push(v);
            }
        }
        for (k, n) in o.counters {
            *self.counters.entry(k).or_insert(0) += n;
        }
        self.caps.extend(o.caps);
    }
}

pub struct Report {
    pub id: String,
    pub tier: Tier,
    pub level: &'static str,
    pub rule: String,
    pub assumptions: Vec<String>,
    pub bounds: Value,
    pub exhaustive: bool,
    pub total: Mutex<Partial>,
    start: Instant,
}

#[derive(Clone, Debug)]
pub struct KnownFinding {
    pub property: String,
    pub status: String, // "open" | "fixed"
    pub key: String,
    pub what: String,
    pub commit: Option<String>,
}

pub fn load_known_findings() -> Result<Vec<KnownFinding>, String> {
    let p = verif_root().join("known_findings.json");
    if !p.exists() {
        return Ok(vec![]);
    }
    let txt = std::fs::read_to_string(&p).map_err(|e| format!("{p:?}: {e}"))?;
    let v: Value = serde_json::from_str(&txt).map_err(|e| format!("{p:?}: {e}"))?;
    let mut out = vec![];
    for f in v
        .get("findings")
        .and_then(|f| f.as_array())
        .cloned()
        .unwrap_or_default()
    {
        out.push(KnownFinding {
            property: f["property"].as_str().unwrap_or("").to_string(),
            status: f["status"].as_str().unwrap_or("open").to_string(),
            key: f["key"].as_str().unwrap_or("").to_string(),
            what: f["what"].as_str().unwrap_or("").to_string(),
            commit: f["commit"].as_str().map(|s| s.to_string()),
        });
    }
    Ok(out)
}

impl Report {
    pub fn new(id: &str, tier: Tier, level: &'static str, rule: &str) -> Report {
        Report {
            id: id.to_string(),
            tier,
            level,
            rule: rule.to_string(),
            assumptions: vec![],
            bounds: json!({}),
            exhaustive: true,
            total: Mutex::new(Partial::new()),
            start: Instant::now(),
        }
    }
    pub fn assume(&mut self, s: &str) {
        self.assumptions.push(s.to_string());
    }
    pub fn merge(&self, p: Partial) {
        self.total.lock().unwrap().merge(p);
    }
    pub fn elapsed(&self) -> f64 {
        self.start.elapsed().as_secs_f64()
    }

    /// Writes evidence, prints KNOWN-FINDING / VIOLATION lines, returns the process exit code.
    pub fn finish(self) -> i32 {
        let root = verif_root();
        let total = self.total.into_inner().unwrap();
        let known = match load_known_findings() {
            Ok(k) => k,
            Err(e) => {
                eprintln!("MACHINERY-ERROR: cannot read known findings: {e}");
                return 2;
            }
        };
        let open: Vec<&KnownFinding> = known
            .iter()
            .filter(|k| k.property == self.id && k.status == "open")
            .collect();

        // replay mode (sequential checks): the exploration of the recorded tier was re-run; the
        // verdict is whether the recorded violation (same key, same scenario) occurred again.
        // Nothing is written (evidence and replay artefacts describe full runs only).
        if let Ok(rk) = std::env::var("VERIF_REPLAY_KEY") {
            let scen = std::env::var("VERIF_REPLAY_SCENARIO").unwrap_or_default();
            let file = std::env::var("VERIF_REPLAY_FILE").unwrap_or_default();
            let same_key: Vec<&Violation> = total.violations.iter().filter(|v| v.key == rk).collect();
            let exact = same_key.iter().find(|v| scen.is_empty() || v.detail.starts_with(&scen));
            return match (exact, same_key.first()) {
                (Some(v), _) => {
                    println!("VIOLATION property={} replay={}", self.id, file);
                    println!("  replayed: key={}  detail={}", v.key, v.detail);
                    1
                }
                (None, Some(v)) => {
                    println!("VIOLATION property={} replay={}", self.id, file);
                    println!("  replayed: the recorded oracle fails again, first on another scenario: key={}  detail={}", v.key, v.detail);
                    1
                }
                (None, None) => {
                    println!("replay: no violation (key {rk} not reproduced; {} executions)", total.evaluations);
                    0
                }
            };
        }

        // group violations by key
        let mut by_key: BTreeMap<String, Vec<&Violation>> = BTreeMap::new();
        for v in &total.violations {
            by_key.entry(v.key.clone()).or_default().push(v);
        }
        let mut new_violations: Vec<(&String, &Violation, usize)> = vec![];
        let mut reproduced: BTreeSet<String> = BTreeSet::new();
        for (k, vs) in &by_key {
            if let Some(kf) = open.iter().find(|kf| key_matches(&kf.key, k)) {
                reproduced.insert(kf.key.clone());
            } else {
                new_violations.push((k, vs[0], vs.len()));
            }
        }
        for kf in &open {
            let tag = if reproduced.contains(&kf.key) {
                "reproduced in this run"
            } else {
                "listed; not met by this run's exploration"
            };
            println!(
                "KNOWN-FINDING: property={} key={} {} ({})",
                self.id, kf.key, kf.what, tag
            );
        }

        let replay_dir = root.join("replays").join(&self.id);
        let mut first_replay: Option<PathBuf> = None;
        if !new_violations.is_empty() {
            let _ = std::fs::create_dir_all(&replay_dir);
        }
        let max_report: usize = std::env::var("VERIF_MAX_REPORT").ok().and_then(|s| s.parse().ok()).unwrap_or(25);
        for (i, (k, v, n)) in new_violations.iter().enumerate().take(max_report) {
            let path = replay_dir.join(format!("violation_{:03}.json", i));
            let doc = json!({
                "property": self.id,
                "key": k,
                "detail": v.detail,
                "occurrences_in_run": n,
                "tier": self.tier.name(),
                "replay": v.replay,
            });
            if let Err(e) = std::fs::write(&path, serde_json::to_string_pretty(&doc).unwrap()) {
                eprintln!("MACHINERY-ERROR: cannot write replay {path:?}: {e}");
                return 2;
            }
            if first_replay.is_none() {
                first_replay = Some(path.clone());
            }
            println!(
                "VIOLATION property={} replay={}",
                self.id,
                path.to_string_lossy()
            );
            println!("  key={k}  detail={}", v.detail);
        }

        if new_violations.len() > 1 {
            let mut classes: BTreeMap<String, usize> = BTreeMap::new();
            for (k, _, _) in &new_violations {
                let c: Vec<&str> = k.split('/').take(2).collect();
                *classes.entry(c.join("/")).or_insert(0) += 1;
            }
            println!("violation classes (distinct keys): {classes:?}");
        }
        let exhaustive = self.exhaustive && total.caps.is_empty();
        let mut coverage = Map::new();
        coverage.insert("evaluations".into(), json!(total.evaluations));
        coverage.insert("distinct_nontrivial".into(), json!(total.classes.len()));
        coverage.insert("rule".into(), json!(self.rule));
        coverage.insert("samples".into(), Value::Array(total.samples.clone()));
        if self.level == "model_checking" {
            coverage.insert("states".into(), json!(total.states));
            coverage.insert("transitions".into(), json!(total.transitions));
            coverage.insert(
                "traces_validated_against_impl".into(),
                json!(total.validated),
            );
        }
        coverage.insert("exhaustive".into(), json!(exhaustive));
        coverage.insert("bounds".into(), self.bounds.clone());
        coverage.insert("counters".into(), json!(total.counters));
        if !total.caps.is_empty() {
            coverage.insert("caps_hit".into(), json!(total.caps));
        }
        coverage.insert(
            "known_findings_reproduced".into(),
            json!(reproduced.iter().collect::<Vec<_>>()),
        );
        let some_classes: Vec<&String> = total.classes.iter().take(12).collect();
        coverage.insert("some_distinct_classes".into(), json!(some_classes));

        let ev = json!({
            "property_id": self.id,
            "tier": self.tier.name(),
            "seed": seed_from_env(),
            "level": self.level,
            "coverage": Value::Object(coverage),
            "assumptions": self.assumptions,
            "wall_s": self.start.elapsed().as_secs_f64(),
            "violations": new_violations.len(),
        });
        let evdir = root.join("evidence");
        let _ = std::fs::create_dir_all(&evdir);
        let evpath = evdir.join(format!("{}.json", self.id));
        if let Err(e) = std::fs::write(&evpath, serde_json::to_string_pretty(&ev).unwrap()) {
            eprintln!("MACHINERY-ERROR: cannot write evidence {evpath:?}: {e}");
            return 2;
        }
        println!(
            "{}: tier={} evaluations={} states={} transitions={} distinct={} violations={} known={} exhaustive={} wall={:.1}s",
            self.id,
            self.tier.name(),
            total.evaluations,
            total.states,
            total.transitions,
            total.classes.len(),
            new_violations.len(),
            reproduced.len(),
            exhaustive,
            self.start.elapsed().as_secs_f64()
        );
        if total.evaluations == 0 {
            eprintln!("MACHINERY-ERROR: nothing was explored");
            return 2;
        }
        if new_violations.is_empty() {
            0
        } else {
            1
        }
    }
}

/// A known-finding key matches a violation key when it is equal, or when the finding key ends in
/// `*` and is a prefix. Keys are specific (call site + input), so a different violation of the same
/// property is still reported.
pub fn key_matches(finding_key: &str, violation_key: &str) -> bool {
    if let Some(p) = finding_key.strip_suffix('*') {
        violation_key.starts_with(p)
    } else {
        finding_key == violation_key
    }
}

// ---------------------------------------------------------------------------------------------
// small numeric helpers shared by oracles
// ---------------------------------------------------------------------------------------------

pub fn rel_close(a: f64, b: f64, rtol: f64, atol: f64) -> bool {
    if a == b {
        return true;
    }
    if a.is_nan() || b.is_nan() {
        return a.is_nan() && b.is_nan();
    }
    (a - b).abs() <= atol + rtol * a.abs().max(b.abs())
}

pub fn bits_eq(a: f64, b: f64) -> bool {
    a.to_bits() == b.to_bits() || (a.is_nan() && b.is_nan())
}

pub fn slice_bits_eq(a: &[f64], b: &[f64]) -> bool {
    a.len() == b.len() && a.iter().zip(b).all(|(x, y)| bits_eq(*x, *y))
}

#[cfg(test)]
mod tests {
    use super::*;
    #[test]
    fn explore_counts_full_binary_tree() {
        let mut leaves = 0;
        let st = explore(None, u64::MAX, |c| {
            c.choose(2);
            c.choose(2);
            c.choose(2);
            leaves += 1;
        })
        .unwrap();
        assert_eq!(leaves, 8);
        assert_eq!(st.executions, 8);
        assert_eq!(st.states, 7);
        assert_eq!(st.transitions, 14);
    }
    #[test]
    fn explore_bound() {
        let mut leaves = 0;
        let st = explore(Some(1), u64::MAX, |c| {
            c.choose(2);
            c.choose(2);
            c.choose(2);
            leaves += 1;
        })
        .unwrap();
        assert_eq!(leaves, 4);
        assert!(!st.exhaustive());
    }
}
